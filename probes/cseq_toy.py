# Toy: Lazy-CSeq style sequentialisation with guarded re-execution, z3 back end.
# Hand-written thread bodies mimicking desync's try_sync / sync_immediate / desync / reschedule (pool size 0).
import z3, time, sys
IDLE,PENDING,RUNNING=0,1,2
class Ctx:
    def __init__(s, R, threads):
        s.R=R; s.threads=threads; s.sol=z3.Solver()
        s.store={}                    # shared var -> z3 expr
        s.local={t:{} for t in range(len(threads))}
        s.pc={t:z3.BitVecVal(0,8) for t in range(len(threads))}   # next visible site index
        s.viol=z3.BoolVal(False)
    def run(s):
        for r in range(s.R):
            for t,body in enumerate(s.threads):
                hi=z3.BitVec(f"hi_{r}_{t}",8)
                s.sol.add(z3.UGE(hi,s.pc[t]))
                T=Th(s,t,s.pc[t],hi); body(T)
                s.pc[t]=z3.If(z3.UGT(hi,T.nsites), z3.BitVecVal(T.nsites,8), hi)  # clamp
                s.nsites=getattr(s,'nsites',{}); s.nsites[t]=T.nsites
class Th:
    def __init__(s,c,t,lo,hi): s.c=c; s.t=t; s.lo=lo; s.hi=hi; s.k=0; s.g=z3.BoolVal(True); s.act=z3.BoolVal(False); s.nsites=0
    def site(s):            # a visible operation boundary
        k=s.k; s.k+=1; s.nsites=s.k
        s.act=z3.And(z3.ULE(s.lo,k), z3.ULT(k,s.hi))
        return s.act
    def rd(s,v): return s.c.store[v]
    def wr(s,v,e,g=None):
        g=z3.And(s.act,s.g) if g is None else z3.And(s.act,s.g,g)
        s.c.store[v]=z3.If(g,e,s.c.store[v])
    def lget(s,v): return s.c.local[s.t][v]
    def lset(s,v,e,g=None):
        gg=z3.And(s.act,s.g) if g is None else z3.And(s.act,s.g,g)
        old=s.c.local[s.t].get(v); s.c.local[s.t][v]= e if old is None else z3.If(gg,e,old)
def bv(n): return z3.BitVecVal(n,4)
# shared: state, qlen, insched ; all critical sections are single atomic sites (lock..unlock)
def reschedule(T):
    T.site()
    st,ql=T.rd('state'),T.rd('qlen')
    go=z3.And(st==IDLE, z3.UGT(ql,0))
    T.wr('state',bv(PENDING),go)
    T.lset('resched',go)
    T.site()
    T.wr('insched',z3.BoolVal(True), T.lget('resched'))
def t_sync_immediate_caller(T):     # sync on idle+empty queue -> immediate; job does nothing
    T.site()                         # decision section
    st,ql=T.rd('state'),T.rd('qlen')
    imm=z3.And(st==IDLE, ql==0)
    T.lset('imm',imm); T.wr('state',bv(RUNNING), st==IDLE)
    # (only modelling the Immediate path; assume it is taken)
    T.c.sol.add(z3.Implies(T.act, imm))
    T.site()                         # job body (visible: yield point)
    T.site()                         # state = Idle
    T.wr('state',bv(IDLE))
    reschedule(T)
    T.site(); T.lset('done',z3.BoolVal(True))
def mk_try_sync(fixed):
    def t_try_sync(T):
        T.site()
        st,ql=T.rd('state'),T.rd('qlen')
        if fixed:
            T.wr('state',bv(RUNNING), z3.And(st==IDLE, ql==0))
        else:
            T.wr('state',bv(RUNNING), st==IDLE)          # as in the tree: set before looking at len
        T.lset('imm',z3.And(st==IDLE, ql==0))
        T.site()
        T.wr('state',bv(IDLE), T.lget('imm'))
        # reschedule only on Immediate path
        g=T.g; T.g=z3.And(g,T.lget('imm')); reschedule(T); T.g=g
        T.site(); T.lset('done',z3.BoolVal(True))
    return t_try_sync
def t_desync(T):
    T.site()
    st=T.rd('state')
    T.wr('qlen',T.rd('qlen')+1)
    T.lset('wasidle',st==IDLE)
    T.wr('state',bv(PENDING),st==IDLE)
    T.site()
    T.wr('insched',z3.BoolVal(True),T.lget('wasidle'))
    T.site(); T.lset('done',z3.BoolVal(True))
def check(fixed,R):
    c=Ctx(R,[t_sync_immediate_caller, mk_try_sync(fixed), t_desync])
    c.store={'state':bv(IDLE),'qlen':bv(0),'insched':z3.BoolVal(False)}
    for t in c.local: c.local[t]={'done':z3.BoolVal(False),'resched':z3.BoolVal(False),'imm':z3.BoolVal(False),'wasidle':z3.BoolVal(False)}
    c.run()
    alldone=z3.And(*[c.local[t]['done'] for t in c.local])
    # stranded: all callers finished, a job is queued, but queue is neither Pending-in-schedule nor owned by anyone alive
    stranded=z3.And(alldone, z3.UGT(c.store['qlen'],0), z3.Not(z3.And(c.store['state']==PENDING, c.store['insched'])))
    c.sol.add(stranded)
    t0=time.time(); r=c.sol.check(); dt=time.time()-t0
    print("fixed" if fixed else "tree ", "R=",R, r, round(dt,2),"s")
    if r==z3.sat:
        m=c.sol.model(); print("   windows:", sorted((str(d),m[d].as_long()) for d in m.decls() if str(d).startswith('hi_')))
        print("   final state", m.eval(c.store['state']), "qlen", m.eval(c.store['qlen']), "insched", m.eval(c.store['insched']))
for fixed in (False,True):
    for R in (1,2,3): check(fixed,R)
