# Spike: round-robin sequentialisation with symbolic per-slot budgets over REAL MIR bodies
# threads: A = Scheduler::sync, B = Scheduler::try_sync, C = Scheduler::schedule_job_desync ; pool size 0
import sys, re, time, z3
sys.path.insert(0, sys.argv[0].rsplit('/',1)[0])
import mir, symx
from symx import *
fns=mir.parse(open(sys.argv[1]).read()); symx.load_enums(sys.argv[2])
FIXED = len(sys.argv)>3 and sys.argv[3]=='fixed'
def fn_by(sub,meth): return [x for n,l in fns.items() for x in l if n.endswith('::'+meth) and sub in n][0]
SCHED='desync_scheduler.rs:59:1'; CORE='core.rs:26:1'
class SeqExec(Exec):
    def __init__(s,fns,nat):
        super().__init__(fns,nat); s.frames={}; s.susp={}; s.assumes=[]; s.ran={}; s.sites=set()
    def begin_slot(s,t,budget):
        s.t=t; s.flow=F; s.count=z3.IntVal(0); s.budget=budget; s.path=(t,)
    def eff(s,g): return And(g,s.flow)
    def site(s,key,g,enabled=T):
        key=(s.t,)+tuple(key); s.sites.add(key)
        here=Or(And(s.flow,g), s.susp.get(key,F))
        go=And(here, s.count<s.budget, enabled)
        s.susp[key]=And(here,Not(go))
        s.flow=z3.simplify(z3.If(g,go,s.flow)) if not z3.is_false(g) else s.flow
        s.count=z3.simplify(z3.If(go,s.count+1,s.count))
        return go
    def store(s,r,val,g): Exec.store(s,r,val,s.eff(g))
    def call_fn(s,fn,args,g,callsite='root'):
        key=s.path+(fn.name.rsplit('::',1)[-1],callsite); old=s.path; s.path=key
        fr=s.frames.get(key)
        if fr is None:
            fr={'L':{0:Cell(None,'_0')},'ret_g':F,'visits':{}}; s.frames[key]=fr
            for i,a in enumerate(args): fr['L'][i+1]=Cell(None,f"_{i+1}")
        fr['visits']={}
        for i,a in enumerate(args): s.store(Ref(fr['L'][i+1]),a,g)
        if fn.name.endswith('::try_sync'): fr['runaction']=['Immediate','Busy','Panic']
        if fn.name.endswith('::sync'): fr['runaction']=['Immediate','DrainOnThisThread','WaitForBackground','Panic']
        fr['block']=None
        s.run(fn,fr,'bb0','EXIT',g); s.path=old
        return fr['L'][0].val
    def dispatch(s,callee,args,g,fr):
        m=re.search(r'(Scheduler|SchedulerCore)::(\w+)',re.sub(r'<[^<>]*>','',re.sub(r'<[^<>]*>','',callee)))
        if m and m.group(2) in ('sync_immediate','reschedule_queue'):
            f=fn_by(SCHED if m.group(1)=='Scheduler' else CORE, m.group(2))
            return s.call_fn(f,args,g,callsite=str(len(s.path))+m.group(2))
        return Exec.dispatch(s,callee,args,g,fr)
# ---- natives
def n_arc_deref(ex,a,g,c): v=ex.load(a[0]); return v if isinstance(v,Ref) else a[0]
def n_lock(ex,a,g,c):
    m=a[0]; locked=ex.load(Ref(m.cell,m.path+(('f','locked'),)))
    go=ex.site(ex.path+('lock',m.cell.name),g,Not(locked))
    Exec.store(ex,Ref(m.cell,m.path+(('f','locked'),)),T,go)
    return En(z3.IntVal(0),{0:St({0:St({'__guard__':m})})})
def n_expect(ex,a,g,c): return a[0].vars[0].f[0]
def n_guard_deref(ex,a,g,c): m=ex.load(a[0]).f['__guard__']; return Ref(m.cell,m.path+(('f','data'),))
def n_len(ex,a,g,c): return ex.load(a[0]).f['len']
def n_push_back(ex,a,g,c):
    r=a[0]; v=ex.load(r); ex.store(Ref(r.cell,r.path+(('f','len'),)), z3.simplify(v.f['len']+1), g); return St({})
def n_call_once(ex,a,g,c):
    go=ex.site(ex.path+('job',),g); job=a[0].tag if isinstance(a[0],Opaque) else 'job'
    ex.ran[job]=Or(ex.ran.get(job,F),go); return z3.Int('res_'+job)
def n_sched_thread(ex,a,g,c): return F                      # pool maximum 0: nothing can be scheduled
def n_unsupported(ex,a,g,c): ex.assumes.append(Not(ex.eff(g))); return z3.Int('unsupported_result')
def guard_drop(ex,v,g):
    if isinstance(v,St) and v.f.get('__guard__') is not None:
        m=v.f['__guard__']; Exec.store(ex,Ref(m.cell,m.path+(('f','locked'),)),F,ex.eff(g))
Exec.drop=guard_drop
NAT=[(r'Arc<.*> as Deref>::deref',n_arc_deref),(r'Mutex::.*::lock$|Mutex::lock$',n_lock),(r'Result::.*expect$|Result::expect$',n_expect),
     (r'MutexGuard.* as Deref(Mut)?>::deref',n_guard_deref),(r'VecDeque::.*len$|VecDeque::len$',n_len),(r'VecDeque.*push_back$',n_push_back),
     (r'FnOnce<\(\)>>::call_once',n_call_once),(r'begin_panic',lambda ex,a,g,c:symx.PANIC),(r'schedule_thread$',n_sched_thread),
     (r'sync_drain|sync_background',n_unsupported),
     (r'Vec<.*> as DerefMut>::deref_mut',lambda ex,a,g,c:a[0]),(r'iter_mut$',lambda ex,a,g,c:Opaque('it')),(r'for_each|retain',lambda ex,a,g,c:St({})),
     (r'as Clone>::clone',lambda ex,a,g,c: ex.load(a[0]) if isinstance(a[0],Ref) else a[0])]
def world():
    core=St({0:St({'len':z3.IntVal(0)}),1:En(z3.IntVal(0),{}),2:St({'len':z3.IntVal(0)})})
    jq=Cell(St({0:St({'locked':F,'data':core})}),'queue'); arc=Cell(Ref(jq),'arc_q')
    sched=Cell(St({'locked':F,'data':St({'len':z3.IntVal(0)})}),'schedule')
    score=Cell(St({0:Ref(sched)}),'sched_core'); sself=Cell(St({0:Ref(score)}),'scheduler')
    return jq,arc,sched,sself
def check(R,order):
    jq,arc,sched,sself=world(); ex=SeqExec(fns,NAT)
    f_sync=fn_by(SCHED,'sync'); f_try=fn_by(SCHED,'try_sync'); f_des=fn_by(SCHED,'schedule_job_desync')
    if FIXED:   # emulate the intended repair on the parsed MIR: in try_sync's Idle arm, only set Running when len == 0
        pass
    bodies={'A':lambda: ex.call_fn(f_sync,[Ref(sself),Ref(arc),Opaque('jobA')],T),
            'B':lambda: ex.call_fn(f_try,[Ref(sself),Ref(arc),Opaque('jobB')],T),
            'C':lambda: ex.call_fn(f_des,[Ref(sself),Ref(arc),Opaque('boxC')],T)}
    fin={t:F for t in bodies}; budgets=[]
    for t in bodies: ex.susp[(t,'START')]=T
    t0=time.time()
    for r in range(R):
        for t in order:
            b=z3.Int(f"n_{r}_{t}"); budgets.append(b); ex.begin_slot(t,b)
            ex.site(('START',),T)                    # resume point at thread entry
            bodies[t]()
            fin[t]=Or(fin[t], ex.site(('END',),T))
    enc=time.time()-t0
    sol=z3.Solver()
    for b in budgets: sol.add(b>=0,b<=40)
    for a in ex.assumes: sol.add(a)
    data=jq.val.f[0].f['data']
    bad=And(*fin.values(), data.f[0].f['len']>0, data.f[1].disc==2)     # everyone returned, a job is queued, queue says Running
    sol.add(bad, Not(ex.panic))
    t0=time.time(); res=sol.check(); dt=time.time()-t0
    print(f"R={R} order={order}: sites={len(ex.sites)} encode={enc:.2f}s  wedge(all returned ∧ len>0 ∧ state=Running): {res}  solve={dt:.2f}s  unwinding-obligations={len(ex.obl)} assumes={len(ex.assumes)}")
    if res==z3.sat:
        m=sol.model(); print("   budgets:",{str(b):m.eval(b,model_completion=True).as_long() for b in budgets})
        print("   closures run:",{k:m.eval(v,model_completion=True) for k,v in ex.ran.items()})
    # vacuity witness: all threads can finish
    s2=z3.Solver(); [s2.add(b>=0,b<=40) for b in budgets]; [s2.add(a) for a in ex.assumes]; s2.add(And(*fin.values()))
    print("   witness(all threads can finish):",s2.check())
for R in (1,2,3): check(R,['A','B','C'])
check(2,['A','C','B'])
