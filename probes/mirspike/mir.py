# Spike MIR parser (throwaway): text dump -> functions {name: Fn(blocks)}
import re
class Fn:
    def __init__(s,name,head): s.name=name; s.head=head; s.nargs=0; s.blocks={}; s.cleanup=set()
class Blk:
    def __init__(s): s.stmts=[]; s.term=None
def split_top(s, sep=','):
    out=[];d=0;cur=''
    i=0
    while i<len(s):
        c=s[i]
        if c in '([{': d+=1
        elif c in ')]}': d-=1
        elif c=='<': d+=1
        elif c=='>' and not (i>0 and s[i-1] in '-='): d-=1
        if c==sep and d==0: out.append(cur.strip()); cur=''
        else: cur+=c
        i+=1
    if cur.strip(): out.append(cur.strip())
    return out
def find_top(s, ch):
    d=0
    for i,c in enumerate(s):
        if c in '([{': 
            if c==ch and d==0: return i
            d+=1
        elif c in ')]}': d-=1
        elif c=='<': d+=1
        elif c=='>' and not (i>0 and s[i-1] in '-='): d-=1
    return -1
def find_top_as(s, pat=' as '):
    d=0
    for i,c in enumerate(s):
        if c in '([{': d+=1
        elif c in ')]}': d-=1
        elif c=='<': d+=1
        elif c=='>' and not (i>0 and s[i-1] in '-='): d-=1
        elif d==0 and s.startswith(pat,i): return i
    return -1
def parse_place(s):
    s=s.strip()
    if re.fullmatch(r'_\d+',s): return ('local',int(s[1:]))
    assert s[0]=='(' and s[-1]==')', s
    inner=s[1:-1].strip()
    if inner[0]=='*': return ('deref',parse_place(inner[1:]))
    # (PLACE as Variant)  or (PLACE.N: TYPE)
    # find the end of the PLACE prefix
    if inner[0]=='_':
        m=re.match(r'_\d+',inner); base=inner[:m.end()]; rest=inner[m.end():]
    else:
        d=0
        for i,c in enumerate(inner):
            if c=='(': d+=1
            elif c==')':
                d-=1
                if d==0: base=inner[:i+1]; rest=inner[i+1:]; break
    rest=rest.strip()
    if rest.startswith('as '): return ('downcast',parse_place(base),rest[3:].strip())
    m=re.match(r'\.(\d+):',rest); assert m,(s,rest)
    return ('field',parse_place(base),int(m.group(1)))
def parse_operand(s):
    s=s.strip()
    if s.startswith('copy '): return ('copy',parse_place(s[5:]))
    if s.startswith('move '): return ('move',parse_place(s[5:]))
    if s.startswith('const '): return ('const',s[6:].strip())
    return ('const',s)
BINOPS=('Eq','Ne','Lt','Le','Gt','Ge','Add','Sub','Mul','BitAnd','BitOr','AddWithOverflow','SubWithOverflow','Offset')
def parse_rvalue(s):
    s=s.strip()
    if s.startswith(('copy ','move ','const ')):
        i=find_top_as(s)
        if i>0: return ('cast',parse_operand(s[:i]),s[i+4:])
        return ('use',parse_operand(s))
    if s.startswith('&raw mut '): return ('ref',parse_place(s[9:]))
    if s.startswith('&raw const '): return ('ref',parse_place(s[11:]))
    if s.startswith('&mut '): return ('ref',parse_place(s[5:]))
    if s.startswith('&'): return ('ref',parse_place(s[1:]))
    if s.startswith('discriminant('): return ('discr',parse_place(s[13:-1]))
    m=re.match(r'^([A-Za-z]+)\((.*)\)$',s)
    if m and m.group(1) in BINOPS:
        a,b=split_top(m.group(2)); return ('binop',m.group(1),parse_operand(a),parse_operand(b))
    if m and m.group(1) in ('Not','Neg'): return ('unop',m.group(1),parse_operand(m.group(2)))
    if s.startswith('(') and s.endswith(')'):
        return ('tuple',[parse_operand(x) for x in split_top(s[1:-1])])
    if s=='()': return ('tuple',[])
    if s.startswith('{closure@') or s.startswith('{coroutine@') or s.startswith('{async'):
        return ('agg',s,[])
    i=find_top(s,'(')
    if i>0 and s.endswith(')'):
        return ('agg',s[:i],[parse_operand(x) for x in split_top(s[i+1:-1])])
    j=find_top(s,'{')
    if j>0 and s.endswith('}'):
        fs=split_top(s[j+1:-1]); return ('aggnamed',s[:j].strip(),[(f.split(':',1)[0].strip(),parse_operand(f.split(':',1)[1])) for f in fs])
    return ('agg',s,[])     # unit variant / unit struct
def parse_targets(t):
    t=t.strip()
    m=re.match(r'\[return: (bb\d+), unwind(?:: (bb\d+)| continue| terminate\(\w+\)| unreachable)?\]',t)
    if m: return m.group(1),m.group(2)
    m=re.match(r'(bb\d+)$',t)
    if m: return None,m.group(1)
    return None,None
def parse(text):
    fns={}
    for m in re.finditer(r'^fn (.+?)\n(.*?)^\}\n', text, re.S|re.M):
        head=m.group(1); body=m.group(2); name=head[:find_top(head,'(')]
        f=Fn(name,head); f.nargs=len(re.findall(r'(?:^|[(,] ?)_(\d+): ',head[find_top(head,'('):]))
        cur=None
        for line in body.split('\n'):
            s=line.strip()
            mb=re.match(r'(bb\d+)( \(cleanup\))?: \{',s)
            if mb: cur=Blk(); f.blocks[mb.group(1)]=cur; 
            if mb and mb.group(2): f.cleanup.add(mb.group(1))
            if mb or cur is None or not s or s=='}' : continue
            if s.startswith(('StorageLive','StorageDead','nop','//','FakeRead','PlaceMention','Retag','ConstEvalCounter')): continue
            s=s.rstrip(';')
            if s.startswith('goto -> '): cur.term=('goto',s[8:]); continue
            if s.startswith('switchInt('):
                i=s.index(') -> ['); op=parse_operand(s[10:i]); tg=s[i+6:-1]
                arms=[]; other=None
                for a in tg.split(', '):
                    k,v=a.split(': ')
                    if k=='otherwise': other=v
                    else: arms.append((int(k),v))
                cur.term=('switch',op,arms,other); continue
            if s in ('return','resume','unreachable') or s.startswith('unwind '): cur.term=(s.split(' ')[0],); continue
            if s.startswith('drop('):
                i=s.index(') -> '); r,u=parse_targets(s[i+5:]); cur.term=('drop',parse_place(s[5:i]),r,u); continue
            if s.startswith('assert('):
                i=s.rindex(' -> '); mm=re.search(r'success: (bb\d+)',s[i:]); cur.term=('assert',s[7:i],mm.group(1)); continue
            if ' -> ' in s and re.search(r'\) -> (\[return|bb\d+$|unwind)',s):
                i=s.rindex(') -> '); tg=s[i+5:]; lhs=None; rhs=s[:i+1]
                ie=find_top_as(rhs,' = ')
                if ie>0 and (rhs[0]=='_' or rhs[0]=='('): lhs=parse_place(rhs[:ie]); rhs=rhs[ie+3:]
                j=find_top(rhs,'('); callee=rhs[:j]; args=[parse_operand(a) for a in split_top(rhs[j+1:-1])]
                r,u=parse_targets(tg); cur.term=('call',lhs,callee,args,r,u); continue
            mm=re.match(r'^discriminant\((.*)\) = (\d+)$',s)
            if mm: cur.stmts.append(('setdiscr',parse_place(mm.group(1)),int(mm.group(2)))); continue
            i=find_top_as(s,' = ')
            cur.stmts.append(('assign',parse_place(s[:i]),parse_rvalue(s[i+3:])))
        fns.setdefault(name,[]).append(f)
    return fns
if __name__=='__main__':
    import sys
    fns=parse(open(sys.argv[1]).read())
    nb=sum(len(f.blocks) for l in fns.values() for f in l); ns=sum(len(b.stmts) for l in fns.values() for f in l for b in f.blocks.values())
    bad=[(f.name,k) for l in fns.values() for f in l for k,b in f.blocks.items() if b.term is None]
    print(len(fns),"fns",nb,"blocks",ns,"stmts; blocks without terminator:",len(bad),bad[:3])
