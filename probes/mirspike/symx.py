# Spike: merging symbolic executor over parsed MIR (guarded in-place updates, ipdom joins), z3 back end.
import sys, re, z3, networkx as nx
sys.path.insert(0, sys.argv[0].rsplit('/',1)[0])
import mir
T,F=z3.BoolVal(True),z3.BoolVal(False)
def And(*a): return z3.simplify(z3.And(*a))
def Or(*a): return z3.simplify(z3.Or(*a))
def Not(a): return z3.simplify(z3.Not(a))
class St:                       # struct / tuple / closure env
    def __init__(s,f): s.f=dict(f)
class En:                       # enum: disc + payload per variant
    def __init__(s,disc,vars=None): s.disc=disc; s.vars=vars or {}
class Ref:                      # pointer: cell + projection path
    def __init__(s,cell,path=()): s.cell=cell; s.path=tuple(path)
class Cell:
    n=0
    def __init__(s,val=None,name=''): s.val=val; s.name=name; Cell.n+=1
class Opaque:
    def __init__(s,tag): s.tag=tag
def is_sc(v): return isinstance(v,(z3.ExprRef,int,bool))
def merge(g,a,b):
    """value a under g else b"""
    if a is b or b is None: return a
    if a is None: return b
    if z3.is_true(g): return a
    if z3.is_false(g): return b
    if is_sc(a) and is_sc(b):
        if isinstance(a,bool): a=z3.BoolVal(a)
        if isinstance(b,bool): b=z3.BoolVal(b)
        if isinstance(a,int): a=z3.IntVal(a)
        if isinstance(b,int): b=z3.IntVal(b)
        return z3.simplify(z3.If(g,a,b))
    if isinstance(a,St) and isinstance(b,St):
        return St({k:merge(g,a.f.get(k),b.f.get(k)) for k in set(a.f)|set(b.f)})
    if isinstance(a,En) and isinstance(b,En):
        vs={}
        for k in set(a.vars)|set(b.vars): vs[k]=merge(g,a.vars.get(k),b.vars.get(k))
        return En(merge(g,a.disc,b.disc),vs)
    if isinstance(a,Ref) and isinstance(b,Ref) and a.cell is b.cell and a.path==b.path: return a
    if isinstance(a,Opaque) and isinstance(b,Opaque) and a.tag==b.tag: return a
    raise NotImplementedError(f"merge {type(a).__name__} / {type(b).__name__}")
ENUMS={'QueueState':['Idle','Pending','Running','WaitingForWake','WaitingForUnpark','WaitingForPoll','AwokenWhileRunning','Panicked'],
       'Option':['None','Some'],'Result':['Ok','Err'],'RunAction':None,'TrySyncError':['Busy']}
def load_enums(srcdir):
    import glob
    for p in glob.glob(srcdir+'/src/**/*.rs',recursive=True):
        t=open(p).read()
        for m in re.finditer(r'enum\s+(\w+)[^{]*\{(.*?)\n\s*\}',t,re.S):
            body=re.sub(r'//[^\n]*','',m.group(2)); body=re.sub(r'\([^)]*\)|\{[^}]*\}','',body)
            ENUMS.setdefault(m.group(1),[]); 
            vs=[v.strip() for v in body.split(',') if v.strip()]
            if m.group(1)=='RunAction': ENUMS.setdefault(('RunAction',p,m.start()),vs)
            else: ENUMS[m.group(1)]=vs
class Panic(Exception): pass
class Exec:
    def __init__(s,fns,natives): s.fns=fns; s.nat=natives; s.obl=[]; s.events=[]; s.panic=F; s.U=3
    # ---- places
    def place_ref(s,fr,p):
        k=p[0]
        if k=='local': return Ref(fr['L'].setdefault(p[1],Cell(None,f"_{p[1]}")))
        if k=='deref':
            r=s.load(s.place_ref(fr,p[1]))
            assert isinstance(r,Ref),(p,r)
            return r
        if k=='field': r=s.place_ref(fr,p[1]); return Ref(r.cell,r.path+(('f',p[2]),))
        if k=='downcast':
            r=s.place_ref(fr,p[1]); return Ref(r.cell,r.path+(('v',p[2]),))
    def variant_index(s,enumval,name):
        name=name.strip()
        m=re.match(r'variant#(\d+)',name)
        if m: return int(m.group(1))
        for en,vs in ENUMS.items():
            if vs and name in vs and isinstance(en,str): return vs.index(name)
        raise KeyError(name)
    def load(s,r):
        v=r.cell.val
        for kind,x in r.path:
            if kind=='f':
                assert isinstance(v,St),(r.cell.name,r.path,v)
                v=v.f.get(x)
            else:
                assert isinstance(v,En); v=v.vars.get(s.variant_index(v,x))
        return v
    def store(s,r,val,g):
        def upd(v,path):
            if not path: return merge(g,val,v)
            kind,x=path[0]
            if kind=='f':
                v=v if isinstance(v,St) else St({}); nf=dict(v.f); nf[x]=upd(v.f.get(x),path[1:]); return St(nf)
            v=v if isinstance(v,En) else En(None); i=s.variant_index(v,x); nv=dict(v.vars); nv[i]=upd(v.vars.get(i),path[1:]); return En(v.disc,nv)
        r.cell.val=upd(r.cell.val,r.path)
    # ---- operands / rvalues
    def const(s,c):
        c=c.strip()
        if c in('true','false'): return z3.BoolVal(c=='true')
        m=re.match(r'^(-?\d+)_?[iu]?\w*$',c)
        if m: return z3.IntVal(int(m.group(1)))
        if c=='()' : return St({})
        if c.startswith('"'): return Opaque(c)
        m=re.match(r'.*::(\w+)::(\w+)$',c)              # const enum variant e.g. TrySyncError::Busy
        if m and m.group(1) in ENUMS and m.group(2) in ENUMS[m.group(1)]: return En(z3.IntVal(ENUMS[m.group(1)].index(m.group(2))))
        return Opaque(c)
    def operand(s,fr,o):
        if o[0]=='const': return s.const(o[1])
        return s.load(s.place_ref(fr,o[1]))
    def rvalue(s,fr,rv,fn):
        k=rv[0]
        if k=='use': return s.operand(fr,rv[1])
        if k=='ref': return s.place_ref(fr,rv[1])
        if k=='discr':
            v=s.load(s.place_ref(fr,rv[1])); assert isinstance(v,En),(rv,v); return v.disc
        if k=='binop':
            a,b=s.operand(fr,rv[2]),s.operand(fr,rv[3]); op=rv[1]
            return z3.simplify({'Eq':lambda:a==b,'Ne':lambda:a!=b,'Lt':lambda:a<b,'Le':lambda:a<=b,'Gt':lambda:a>b,'Ge':lambda:a>=b,'Add':lambda:a+b,'Sub':lambda:a-b}[op]())
        if k=='unop': return Not(s.operand(fr,rv[2]))
        if k=='tuple': return St({i:s.operand(fr,o) for i,o in enumerate(rv[1])})
        if k=='cast': return s.operand(fr,rv[1])
        if k in('agg','aggnamed'):
            path=re.sub(r'::<.*?>(?=::|$)','',rv[1]) if k=='agg' else rv[1]
            ops=[s.operand(fr,o) for o in (rv[2] if k=='agg' else [o for _,o in rv[2]])]
            m=re.match(r'^(.*?)(\w+)::(\w+)$',path)
            if m:
                enum,var=m.group(2),m.group(3)
                vs=ENUMS.get(enum)
                if enum=='RunAction':
                    # local enums: pick the RunAction declared inside the function being executed
                    cands=[v for kk,v in ENUMS.items() if isinstance(kk,tuple) and var in v]
                    key=fn.name.rsplit('::',1)[-1]
                    vs=[v for kk,v in ENUMS.items() if isinstance(kk,tuple) and var in v][0]
                    vs=fr.get('runaction') or vs
                if vs and var in vs: return En(z3.IntVal(vs.index(var)),{vs.index(var):St({i:o for i,o in enumerate(ops)})})
            return St({i:o for i,o in enumerate(ops)})
        raise NotImplementedError(rv)
    # ---- control
    def ipdom(s,fn):
        if hasattr(fn,'_ip'): return fn._ip
        G=nx.DiGraph(); G.add_node('EXIT')
        for b,blk in fn.blocks.items():
            if b in fn.cleanup: continue
            t=blk.term; succ=[]
            if t[0]=='goto': succ=[t[1]]
            elif t[0]=='switch': succ=[v for _,v in t[2]]+([t[3]] if t[3] else [])
            elif t[0]=='drop': succ=[t[2]]
            elif t[0]=='call': succ=[t[4]] if t[4] else []      # diverging call: not on any path to EXIT
            elif t[0]=='assert': succ=[t[2]]
            elif t[0]=='return': succ=['EXIT']
            else: succ=[]                                        # unreachable
            for x in succ: G.add_edge(x,b)       # reversed graph
        fn._ip=nx.immediate_dominators(G,'EXIT'); return fn._ip
    def call_fn(s,fn,args,g):
        fr={'L':{},'ret_g':F,'visits':{}}
        fr['L'][0]=Cell(None,'_0')
        for i,a in enumerate(args): fr['L'][i+1]=Cell(a,f"_{i+1}")
        if fn.name.endswith('::try_sync'): fr['runaction']=['Immediate','Busy','Panic']
        if fn.name.endswith('::sync') or fn.name.endswith('sync_no_panic'): fr['runaction']=['Immediate','DrainOnThisThread','WaitForBackground','Panic']
        s.run(fn,fr,'bb0','EXIT',g)
        return fr['L'][0].val
    def run(s,fn,fr,b,stop,g):
        """execute from block b until `stop`; returns guard with which stop is reached"""
        while True:
            if b==stop: return g
            if z3.is_false(g): return F
            n=fr['visits'].get(b,0)
            if n>=s.U: s.obl.append(('unwind',fn.name,b,g)); return F
            fr['visits']=dict(fr['visits']); fr['visits'][b]=n+1
            blk=fn.blocks[b]
            for st in blk.stmts:
                if st[0]=='assign': s.store(s.place_ref(fr,st[1]), s.rvalue(fr,st[2],fn), g)
                else:
                    r=s.place_ref(fr,st[1]); v=s.load(r); nv=En(z3.IntVal(st[2]),v.vars if isinstance(v,En) else {}); s.store(r,nv,g)
            t=blk.term
            if t[0]=='goto': b=t[1]; continue
            if t[0]=='return': fr['ret_g']=Or(fr['ret_g'],g); return F if stop!='EXIT' else g
            if t[0]=='unreachable': return F
            if t[0]=='switch':
                v=s.operand(fr,t[1]); j=s.ipdom(fn).get(b,'EXIT'); outs=[]; taken=F
                saved=fr['visits']
                for val,tgt in t[2]:
                    fr['visits']=saved
                    c = (v==z3.IntVal(val)) if not z3.is_bool(v) else (v if val else Not(v))
                    c=z3.simplify(c); outs.append(s.run(fn,fr,tgt,j,And(g,c))); taken=Or(taken,c)
                fr['visits']=saved
                if t[3]: outs.append(s.run(fn,fr,t[3],j,And(g,Not(taken))))
                fr['visits']=saved
                g=Or(*outs); b=j
                if j=='EXIT': return g
                continue
            if t[0]=='drop':
                v=s.load(s.place_ref(fr,t[1])); s.drop(v,g); b=t[2]; continue
            if t[0]=='assert': b=t[2]; continue
            if t[0]=='call':
                _,lhs,callee,args,ret,unw=t
                av=[s.operand(fr,a) for a in args]
                res=s.dispatch(callee,av,g,fr)
                if res is PANIC: s.panic=Or(s.panic,g); return F
                if lhs is not None and res is not None: s.store(s.place_ref(fr,lhs),res,g)
                if ret is None: return F
                b=ret; continue
            raise NotImplementedError(t)
    def drop(s,v,g):
        if isinstance(v,St) and v.f.get('__guard__') is not None:
            m=v.f['__guard__']; s.events.append(('unlock',m.cell.name,g)); s.store(Ref(m.cell,(('f','locked'),)),F,g)
    def dispatch(s,callee,args,g,fr):
        c=re.sub(r'<[^<>]*>','',callee); 
        for _ in range(6): c=re.sub(r'<[^<>]*>','',c)
        for pat,fnat in s.nat:
            if re.search(pat,callee) or re.search(pat,c): return fnat(s,args,g,callee)
        raise NotImplementedError('no model for '+callee)
PANIC=object()
