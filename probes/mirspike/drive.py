import sys, re, z3
sys.path.insert(0, sys.argv[0].rsplit('/',1)[0])
import mir, symx
from symx import *
fns=mir.parse(open(sys.argv[1]).read()); symx.load_enums(sys.argv[2])
def find(suffix):
    c=[f for n,l in fns.items() for f in l if n.endswith(suffix)]
    assert len(c)==1,(suffix,[f.name for f in c]); return c[0]
# ---------- natives (minimal, spike)
def n_arc_deref(ex,a,g,c): return ex.load(a[0]) if isinstance(ex.load(a[0]),Ref) else a[0]
def n_lock(ex,a,g,c):
    m=a[0]; ex.events.append(('lock',m.cell.name,m.path,g))
    ex.store(Ref(m.cell,m.path+(('f','locked'),)),T,g)
    return En(z3.IntVal(0),{0:St({0:St({'__guard__':m})})})
def n_expect(ex,a,g,c): return a[0].vars[0].f[0]
def n_guard_deref(ex,a,g,c):
    gd=ex.load(a[0]); m=gd.f['__guard__']; return Ref(m.cell,m.path+(('f','data'),))
def n_len(ex,a,g,c): return ex.load(a[0]).f['len']
def n_push_back(ex,a,g,c):
    r=a[0]; v=ex.load(r); ex.store(Ref(r.cell,r.path+(('f','len'),)), z3.simplify(v.f['len']+1), g); ex.events.append(('push_back',r.cell.name,g)); return St({})
def n_immediate(ex,a,g,c): ex.events.append(('sync_immediate',g)); return z3.Int('job_result')
def n_sched_thread(ex,a,g,c): ex.events.append(('schedule_thread',g)); return z3.Bool('sched_ok')
def n_panic(ex,a,g,c): return symx.PANIC
def n_noop(ex,a,g,c): return St({})
def n_id(ex,a,g,c): return ex.load(a[0]) if isinstance(a[0],Ref) else a[0]
def n_iter(ex,a,g,c): return Opaque('iter')
def guard_drop(ex,v,g):
    if isinstance(v,St) and v.f.get('__guard__') is not None:
        m=v.f['__guard__']; ex.events.append(('unlock',m.cell.name,m.path,g)); ex.store(Ref(m.cell,m.path+(('f','locked'),)),F,g)
Exec.drop=guard_drop
NAT=[(r'Arc<.*> as Deref>::deref',n_arc_deref),(r'Mutex::.*::lock$|Mutex::lock$',n_lock),(r'Result::.*expect$|Result::expect$',n_expect),
     (r'MutexGuard.* as Deref(Mut)?>::deref',n_guard_deref),(r'VecDeque::.*len$|VecDeque::len$',n_len),(r'VecDeque.*push_back$',n_push_back),
     (r'sync_immediate',n_immediate),(r'begin_panic',n_panic),(r'schedule_thread$',n_sched_thread),
     (r'Vec<.*> as DerefMut>::deref_mut',lambda ex,a,g,c:a[0]),(r'iter_mut$',n_iter),(r'for_each',n_noop),(r'retain',n_noop),(r'as Clone>::clone',n_id)]
def mk_world():
    s0=z3.Int('s0'); n0=z3.Int('n0'); fid=z3.Int('fid')
    core=St({0:St({'len':n0}),1:En(s0,{5:St({0:St({0:fid})})}),2:St({'len':z3.IntVal(0)})})
    jq=Cell(St({0:St({'locked':F,'data':core})}),'queue')
    arc=Cell(Ref(jq),'arc_q')
    sched=Cell(St({'locked':F,'data':St({'len':z3.Int('sch0')})}),'schedule'); arc_s=Cell(Ref(sched),'arc_sched')
    score=Cell(St({0:Ref(sched)}),'sched_core')          # SchedulerCore.0 = Arc<Mutex<VecDeque<..>>>
    return s0,n0,jq,arc,sched,score
NAMES=symx.ENUMS['QueueState']
def table(title,run):
    print("=== "+title)
    for sv in range(8):
        for nv in (0,1):
            row=run(sv,nv); print(f"  pre=({NAMES[sv]:<18},len={nv}) -> {row}")
def ev(e,sub):
    return z3.simplify(z3.substitute(e,*sub)) if isinstance(e,z3.ExprRef) else e
# ---------- try_sync
def run_try_sync(sv,nv):
    s0,n0,jq,arc,sched,score=mk_world(); ex=Exec(fns,NAT)
    f=[x for n,l in fns.items() for x in l if n.endswith('::try_sync') and 'desync_scheduler.rs:59' in n][0]
    sched_self=Cell(St({0:Ref(score)}),'scheduler')
    ret=ex.call_fn(f,[Ref(sched_self),Ref(arc),Opaque('job')],T)
    sub=[(s0,z3.IntVal(sv)),(n0,z3.IntVal(nv))]
    post=ev(jq.val.f[0].f['data'].f[1].disc,sub); locked=ev(jq.val.f[0].f['locked'],sub)
    imm=ev(Or(*[e[1] for e in ex.events if e[0]=='sync_immediate']),sub); pan=ev(ex.panic,sub)
    rd=ev(ret.disc,sub) if ret is not None else None
    return f"post={NAMES[post.as_long()]:<18} ret={'Ok' if str(rd)=='0' else 'Err(Busy)' if str(rd)=='1' else rd} ran_closure={imm} panic={pan} lock_left_held={locked}"
table("Scheduler::try_sync (from MIR of the current tree)",run_try_sync)
# ---------- reschedule_queue
def run_resched(sv,nv):
    s0,n0,jq,arc,sched,score=mk_world(); ex=Exec(fns,NAT)
    f=[x for n,l in fns.items() for x in l if n.endswith('::reschedule_queue') and 'core::' in n][0]
    ex.call_fn(f,[Ref(score),Ref(arc),Ref(score)],T)
    sub=[(s0,z3.IntVal(sv)),(n0,z3.IntVal(nv))]
    post=ev(jq.val.f[0].f['data'].f[1].disc,sub)
    pushed=ev(Or(*[e[2] for e in ex.events if e[0]=='push_back']),sub); st=ev(Or(*[e[1] for e in ex.events if e[0]=='schedule_thread']),sub)
    return f"post={NAMES[post.as_long()]:<18} pushed_to_schedule={pushed} schedule_thread_called={st}"
table("SchedulerCore::reschedule_queue",run_resched)
