use super::core::*; use super::job_queue::*; use super::queue_state::*; use super::desync_scheduler::*;
use std::sync::Arc;
fn st(n: u8) -> QueueState { match n { 0 => QueueState::Idle, 1 => QueueState::Pending, 2 => QueueState::Running, 3 => QueueState::WaitingForWake, 4 => QueueState::WaitingForUnpark, 5 => QueueState::WaitingForPoll(FutureId(7)), 6 => QueueState::AwokenWhileRunning, _ => QueueState::Panicked } }
static mut SCHEDULE_THREAD_CALLS: u32 = 0;
fn stub_schedule_thread(_this: &SchedulerCore, _core: Arc<SchedulerCore>) -> bool { unsafe { SCHEDULE_THREAD_CALLS += 1; } false }
#[kani::proof]
#[kani::unwind(3)]
#[kani::stub(SchedulerCore::schedule_thread, stub_schedule_thread)]
fn k_reschedule_queue() {
    let s = Scheduler::new();
    let q = Arc::new(JobQueue::new());
    let n: u8 = kani::any(); kani::assume(n < 8);
    q.core.lock().unwrap().state = st(n);
    s.core.reschedule_queue(&q, Arc::clone(&s.core));
    let post = q.core.lock().unwrap().state;
    let calls = unsafe { SCHEDULE_THREAD_CALLS };
    // relation taken from probes/mirspike/step_tables.txt (len = 0 column)
    if n == 5 { assert!(calls == 1 && post == st(5)); } else { assert!(calls == 0 && post == st(n)); }
    std::mem::forget(q); std::mem::forget(s);
}
