use crate::scheduler::*;
use std::sync::Arc;
use std::cell::Cell;

#[kani::proof]
#[kani::unwind(4)]
fn p1_sync_immediate() {
    let s = Scheduler::new();
    let q = s.create_job_queue();
    let x: u32 = kani::any();
    let r = s.sync(&q, || x.wrapping_add(1));
    assert!(r == x.wrapping_add(1));
}

#[kani::proof]
#[kani::unwind(5)]
fn p2_desync_then_sync_drain() {
    let s = Scheduler::new();
    let q = s.create_job_queue();
    let cnt = Arc::new(std::sync::atomic::AtomicU32::new(0));
    let c2 = cnt.clone();
    s.desync(&q, move || { c2.fetch_add(1, std::sync::atomic::Ordering::SeqCst); });
    let c3 = cnt.clone();
    let r = s.sync(&q, move || c3.load(std::sync::atomic::Ordering::SeqCst));
    assert!(r == 1);
}


#[kani::proof]
#[kani::unwind(3)]
fn p5_try_sync_fresh() {
    let s = Scheduler::new();
    let q = s.create_job_queue();
    let x: u32 = kani::any();
    let r = s.try_sync(&q, || x);
    assert!(r == Ok(x));
    std::mem::forget(q); std::mem::forget(s);
}

#[kani::proof]
#[kani::unwind(3)]
fn p6_desync_only() {
    let s = Scheduler::new();
    let q = s.create_job_queue();
    s.desync(&q, move || { });
    std::mem::forget(q); std::mem::forget(s);
}
