# synthetic partial-order BMC: T threads each doing K critical sections on one mutex incrementing a counter nondeterministically by reading it
import z3, time, sys
T=int(sys.argv[1]); K=int(sys.argv[2])
s=z3.Solver()
ev=[]  # (thread, idx, lockclk, unlockclk, pre, post)
for t in range(T):
    prev=None
    for k in range(K):
        l=z3.Int(f"l_{t}_{k}"); u=z3.Int(f"u_{t}_{k}"); pre=z3.Int(f"pre_{t}_{k}"); post=z3.Int(f"post_{t}_{k}")
        s.add(l<u)
        if prev is not None: s.add(prev<l)
        s.add(post==z3.If(pre%3==t%3, pre+2, pre+1))
        prev=u; ev.append((t,k,l,u,pre,post))
n=len(ev)
for i in range(n):
    for j in range(i+1,n):
        if ev[i][0]!=ev[j][0]:
            s.add(z3.Or(ev[i][3]<ev[j][2], ev[j][3]<ev[i][2]))
# read-from
for j in range(n):
    srcs=[]
    b0=z3.Bool(f"rf_init_{j}"); srcs.append(b0)
    s.add(z3.Implies(b0, z3.And(ev[j][4]==0, *[ev[j][2]<ev[i][2] for i in range(n) if i!=j])))
    for i in range(n):
        if i==j: continue
        b=z3.Bool(f"rf_{i}_{j}"); srcs.append(b)
        cons=[ev[i][3]<ev[j][2], ev[j][4]==ev[i][5]]
        for k in range(n):
            if k in (i,j): continue
            cons.append(z3.Or(ev[k][3]<ev[i][2], ev[j][3]<ev[k][2]))
        s.add(z3.Implies(b, z3.And(*cons)))
    s.add(z3.Or(*srcs))
# property: final counter (max over posts) never equals n+T+5 (unsat expected?) -> ask sat for a specific reachable value to exercise search
last=z3.Int("last")
s.add(z3.Or(*[z3.And(last==e[5], *[o[3]<=e[3] for o in ev]) for e in ev]))
s.add(last==int(sys.argv[3]))
t0=time.time(); r=s.check(); print(T,K,n,"events",r,round(time.time()-t0,1),"s")
