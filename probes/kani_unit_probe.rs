use super::probe_api::*;
use super::*;
use std::sync::Arc;

#[kani::proof]
#[kani::unwind(3)]
fn p3_dequeue_symbolic_state() {
    let q = Arc::new(mk_queue());
    set_state(&q, kani::any());
    assert!(deq(&q));
    std::mem::forget(q);
}

#[kani::proof]
#[kani::unwind(3)]
fn p4_claim_pending() {
    let s = Scheduler::new();
    let q = Arc::new(mk_queue());
    let st: u8 = kani::any();
    set_state(&q, st);
    let claimed = claim(&s,&q);
    assert!(claimed == (st == 0 || st == 1));
    if claimed { assert!(get_state(&q) == 2); } else { assert!(get_state(&q) == st % 8); }
    std::mem::forget(q); std::mem::forget(s);
}
