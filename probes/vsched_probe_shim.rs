//! probe shim (sequential; Kani)
#![allow(dead_code)]
pub mod sync {
    pub use std::sync::{Arc, Weak, LockResult, PoisonError, TryLockError, TryLockResult};
    pub mod atomic { pub use std::sync::atomic::*; }
    use std::cell::{Cell, UnsafeCell};
    use std::ops::{Deref, DerefMut};

    pub struct Mutex<T: ?Sized> { locked: Cell<bool>, data: UnsafeCell<T> }
    unsafe impl<T: ?Sized + Send> Send for Mutex<T> {}
    unsafe impl<T: ?Sized + Send> Sync for Mutex<T> {}
    pub struct MutexGuard<'a, T: ?Sized> { m: &'a Mutex<T> }
    impl<T> Mutex<T> {
        pub fn new(t: T) -> Mutex<T> { Mutex { locked: Cell::new(false), data: UnsafeCell::new(t) } }
    }
    impl<T: ?Sized> Mutex<T> {
        pub fn lock(&self) -> LockResult<MutexGuard<'_, T>> {
            super::sched_point();
            super::assume(!self.locked.get());
            self.locked.set(true);
            Ok(MutexGuard { m: self })
        }
        pub fn try_lock(&self) -> TryLockResult<MutexGuard<'_, T>> {
            super::sched_point();
            if self.locked.get() { Err(TryLockError::WouldBlock) } else { self.locked.set(true); Ok(MutexGuard { m: self }) }
        }
    }
    impl<'a, T: ?Sized> Deref for MutexGuard<'a, T> { type Target = T; fn deref(&self) -> &T { unsafe { &*self.m.data.get() } } }
    impl<'a, T: ?Sized> DerefMut for MutexGuard<'a, T> { fn deref_mut(&mut self) -> &mut T { unsafe { &mut *self.m.data.get() } } }
    impl<'a, T: ?Sized> Drop for MutexGuard<'a, T> { fn drop(&mut self) { self.m.locked.set(false); super::sched_point(); } }

    pub struct Condvar { notified: Cell<bool> }
    unsafe impl Send for Condvar {}
    unsafe impl Sync for Condvar {}
    impl Condvar {
        pub fn new() -> Condvar { Condvar { notified: Cell::new(false) } }
        pub fn notify_one(&self) { self.notified.set(true); }
        pub fn notify_all(&self) { self.notified.set(true); }
        pub fn wait<'a, T>(&self, guard: MutexGuard<'a, T>) -> LockResult<MutexGuard<'a, T>> {
            let m = guard.m;
            self.notified.set(false);
            drop(guard);
            super::block_until(|| self.notified.get());
            m.lock()
        }
    }
    pub mod mpsc {
        use std::collections::VecDeque;
        use std::cell::RefCell;
        use std::sync::Arc;
        pub struct Chan<T> { q: RefCell<VecDeque<T>> }
        pub struct Sender<T>(Arc<Chan<T>>);
        pub struct Receiver<T>(Arc<Chan<T>>);
        unsafe impl<T: Send> Send for Sender<T> {}
        unsafe impl<T: Send> Send for Receiver<T> {}
        pub struct SendError<T>(pub T);
        impl<T> std::fmt::Debug for SendError<T> { fn fmt(&self, f: &mut std::fmt::Formatter) -> std::fmt::Result { f.write_str("SendError") } }
        #[derive(Debug)] pub struct RecvError;
        pub fn channel<T>() -> (Sender<T>, Receiver<T>) { let c = Arc::new(Chan { q: RefCell::new(VecDeque::new()) }); (Sender(c.clone()), Receiver(c)) }
        impl<T> Sender<T> { pub fn send(&self, t: T) -> Result<(), SendError<T>> { self.0.q.borrow_mut().push_back(t); Ok(()) } }
        impl<T> Receiver<T> { pub fn recv(&self) -> Result<T, RecvError> { match self.0.q.borrow_mut().pop_front() { Some(t) => Ok(t), None => Err(RecvError) } } }
    }
}
pub mod thread {
    #[derive(Clone)] pub struct Thread(pub usize);
    impl Thread { pub fn unpark(&self) { } }
    pub fn current() -> Thread { Thread(0) }
    pub fn park() { }
    pub fn panicking() -> bool { false }
    pub struct Builder;
    pub struct JoinHandle<T>(std::marker::PhantomData<T>);
    impl<T> JoinHandle<T> { pub fn is_finished(&self) -> bool { false } pub fn join(self) -> Result<T, Box<dyn std::any::Any + Send>> { unimplemented!() } }
    impl Builder { pub fn new() -> Builder { Builder } pub fn name(self, _n: String) -> Builder { self }
        pub fn spawn<F: FnOnce() -> T + Send + 'static, T: Send + 'static>(self, _f: F) -> std::io::Result<JoinHandle<T>> { Ok(JoinHandle(std::marker::PhantomData)) } }
}
pub fn sched_point() { }
pub fn block_until<F: Fn() -> bool>(f: F) { assume(f()); }
#[cfg(kani)] pub fn assume(b: bool) { kani::assume(b) }
#[cfg(not(kani))] pub fn assume(b: bool) { assert!(b) }
