# step-indexed BMC, finite-domain state, T threads x K sections each; each section: state' = f(state, t, k)
import z3, time, sys
T=int(sys.argv[1]); K=int(sys.argv[2]); target=int(sys.argv[3]); mode=sys.argv[4] if len(sys.argv)>4 else "bv"
N=T*K
BV=lambda n,w=8: z3.BitVec(n,w)
s=z3.SolverFor("QF_BV") if mode=="bv" else z3.Solver()
state=[BV(f"s_{i}") for i in range(N+1)]
pc=[[BV(f"pc_{t}_{i}",6) for i in range(N+1)] for t in range(T)]
ch=[BV(f"ch_{i}",3) for i in range(N)]
s.add(state[0]==0)
for t in range(T): s.add(pc[t][0]==0)
def f(st,t,k):
    # small nonlinear finite-domain transition
    return z3.If(z3.URem(st,3)==(t%3), st+2, st+1)
for i in range(N):
    s.add(z3.ULT(ch[i],T))
    for t in range(T):
        act = ch[i]==t
        s.add(z3.Implies(act, z3.ULT(pc[t][i],K)))
        s.add(pc[t][i+1]==z3.If(act, pc[t][i]+1, pc[t][i]))
    nxt=state[i]
    for t in range(T):
        nxt=z3.If(ch[i]==t, f(state[i],t,None), nxt)
    s.add(state[i+1]==nxt)
s.add(state[N]==target)
t0=time.time(); r=s.check(); print("step",T,K,N,"steps",r,round(time.time()-t0,1),"s")
