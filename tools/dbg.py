#!/usr/bin/env python3-vt
# tools/dbg.py <replay json> [--trace THREAD]  — re-run the encoder with the schedule of a stored model FIXED (all budget literals constant),
# printing the queue states after every visible step.  Used to find where model and real build part ways (ENCODING-MISMATCH).
import sys, json, os
sys.path.insert(0, os.path.dirname(os.path.dirname(os.path.abspath(__file__))))
from mirseq import check as C
from mirseq.scen import load_program, World
from mirseq.expr import *
from mirseq.oracles import queue_core
d = json.load(open(sys.argv[1]))
spec = d['scenario']; sched = (d.get('violation') or d)['schedule']
mir, key, _ = C.get_mir()
prog = load_program(mir, C.REPO, spec.get('cap', 3))
w = World(prog, spec['scen'], cap=spec.get('cap', 3)); w.build()
names = {t.name: t.tid for t in w.m.threads}
fixed = {}
for s in sched['slots']:
    for j in range(s['steps']): fixed['a_%d_%d_%d' % (s['round'], names[s['thread']], j)] = True
if '--trace' in sys.argv:
    w.m.debug = True; w.m.trace_thread = sys.argv[sys.argv.index('--trace') + 1]
orig = w.m.step
QS = None
def show_q():
    out = []
    for q in range(spec['scen'].get('queues', 1)):
        try:
            st, ln, lk = queue_core(w, q)
            out.append('q%d:state=%s len=%s%s' % (q, st.val if st.op == 'c' else '?', ln.val if ln.op == 'c' else '?', ' LOCKED' if lk is TRUE else ''))
        except Exception as e: out.append('q%d:?' % q)
    return ' '.join(out)
def step(th, act, slot=None, stepno=None):
    n0 = len(w.m.trace_sites)
    r = orig(th, act, slot=slot, stepno=stepno)
    if act is TRUE:
        for (sl, sn, tid, poskey, go, what) in w.m.trace_sites[n0:]:
            if go is TRUE:
                fn = w.m.fn_of(poskey[0]).name if poskey[0] != 'END' else 'END'
                print('%-3s slot %s step %s  %-60s %-6s %-24s | %s' % (th.name, slot[0], stepno, fn[-60:], poskey[1], what[-24:], show_q()))
    return r
w.m.step = step
w.run(R=spec['R'], B=spec['B'], order=spec.get('order'), seq=spec.get('seq'), fixed=fixed)
print('panics:', [(t, wh) for t, wh, g in w.m.panics if g is TRUE])
print('violations:', [n for n, g in w.m.violations if g is TRUE])
print('obligations:', [(k, t) for k, t, g in w.m.obligations if g is TRUE])
