#!/bin/bash
# tools/run_seeded.sh <seed id> <tier> <property> [--only substr]   -- apply a seeded change to /repo, run a check, undo the change
set -u
id=$1; tier=$2; prop=$3; shift 3
cd /verif
patch=seeded/$id/patch.diff
[ -f seeded/$id/patch_ported_to_fixed_tree.diff ] && patch=seeded/$id/patch_ported_to_fixed_tree.diff
if ! git -C /repo diff --quiet; then echo "/repo has uncommitted changes"; exit 3; fi
git -C /repo apply $PWD/$patch || { echo "patch does not apply"; exit 3; }
trap 'git -C /repo checkout -- .' EXIT
out=seeded/$id/check_${prop}_${tier}.txt
VERIF_JOBS=${VERIF_JOBS:-14} ./check $prop --tier $tier "$@" 2>&1 | grep -v "^warning\|^   |\|^    =\|^$" | tee $out
echo "exit=${PIPESTATUS[0]}" | tee -a $out
