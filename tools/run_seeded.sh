#!/bin/bash
# tools/run_seeded.sh <seed id> <tier> <property> [--only substr]
# Runs a check against a scratch copy of /repo with the seeded change applied (VERIF_REPO points the check at the copy;
# evidence and replay artefacts go to seeded/<id>/run/, /repo and evidence/ are not touched).  Equivalent to
# `git -C /repo apply <patch>; ./check ...; git -C /repo checkout -- .`, but several seeds can be tried at once.
set -u
id=$1; tier=$2; prop=$3; shift 3
cd /verif
patch=$PWD/seeded/$id/patch.diff
[ -f seeded/$id/patch_ported_to_fixed_tree.diff ] && patch=$PWD/seeded/$id/patch_ported_to_fixed_tree.diff
copy=$(mktemp -d /tmp/seedrepo_${id}_XXXX)
rsync -a --exclude target /repo/ $copy/
git -C $copy apply $patch || { echo "patch does not apply"; rm -rf $copy; exit 3; }
mkdir -p seeded/$id/run
out=seeded/$id/run/check_${prop}_${tier}.txt
VERIF_REPO=$copy VERIF_REPLAY_TARGET=$copy/target_replay VERIF_EVIDENCE_DIR=$PWD/seeded/$id/run VERIF_REPLAY_DIR=$PWD/seeded/$id/run/replay VERIF_JOBS=${VERIF_JOBS:-6} \
  python3-vt -m mirseq.check $prop --tier $tier "$@" 2>&1 | grep --line-buffered -v "^warning\|^   |\|^    =\|^$" | tee $out
rc=${PIPESTATUS[0]}
echo "exit=$rc" | tee -a $out
rm -rf $copy
exit $rc
