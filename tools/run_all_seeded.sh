#!/bin/bash
# tools/run_all_seeded.sh [tier] [ids...]  — run every seeded change against the check of its property, two at a time
tier=${1:-quick}; shift
ids=${@:-$(ls -d seeded/C* | xargs -n1 basename)}
cd /verif
for id in $ids; do
  prop=$(python3 -c "import json;print(json.load(open('seeded/$id/meta.json'))['property'])")
  echo "$id $prop"
done | xargs -P 2 -L 1 bash -c 'VERIF_JOBS=7 tools/run_seeded.sh $0 '"$tier"' $1 > /dev/null 2>&1; echo "$0 done: $(tail -1 seeded/$0/run/check_$1_'"$tier"'.txt)"'
python3 tools/seeded_results.py > /dev/null
