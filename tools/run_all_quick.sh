#!/bin/bash
# tools/run_all_quick.sh [tier] [props...] — run every registered check in turn on /repo, log to scratch/allquick/<prop>.log
tier=${1:-quick}; shift
props=${@:-C01 C02 C03 C04 C05 C06 C07 C08 C09 C10 C11 C12 C13 C14 C15 C16 C17}
cd /verif; mkdir -p scratch/allquick
for p in $props; do
  /usr/bin/time -f "%e s" ./check $p --tier $tier > scratch/allquick/$p.log 2>&1; rc=$?
  echo "$p rc=$rc $(tail -1 scratch/allquick/$p.log) $(grep -c 'KNOWN-FINDING' scratch/allquick/$p.log) known; $(grep -E 'inconclusive|VIOLATION|MISMATCH' scratch/allquick/$p.log | head -3 | tr '\n' ' ')"
done
