#!/usr/bin/env python3
import json,sys
d=json.load(open(sys.argv[1]))
v=d['violation']
print(v['oracle'], v['clauses'], v.get('known'))
last=None
for i,s in enumerate(v['schedule']['sites']):
    print(i, s['round'], s['thread'], s['fn'][-46:], s['block'], s['phase'], s['op'][-30:])
for n,f in v['schedule']['final'].items(): print(n, 'fin' if f['finished'] else ('BLOCKED' if f['blocked'] else 'run'), f['at'])
print(d.get('replay_result'))
if 'native_run' in d:
    print(d['native_run'].get('queues'))
