#!/usr/bin/env python3
# collect seeded/<id>/run/check_*.txt into seeded/RESULTS.md
import os, re, glob, json
rows = []
for d in sorted(glob.glob('/verif/seeded/C*')):
    sid = os.path.basename(d)
    meta = json.load(open(d + '/meta.json'))
    for f in sorted(glob.glob(d + '/run/check_*.txt')):
        m = re.match(r'check_(C\d+)_(\w+)\.txt', os.path.basename(f))
        txt = open(f).read()
        ex = re.search(r'exit=(\d+)', txt)
        viol = re.findall(r'scenario (\S+) oracle (\S+) clauses (\S+)\s+\(replay: (\w+)\)', txt)
        incon = re.findall(r'^\s+(\S+)\s+inconclusive.*?  (.*)$', txt, re.M)
        verdict = {'0': 'NOT DETECTED (pass)', '1': 'DETECTED (violation replayed on the real build)', '2': 'INCONCLUSIVE'}.get(ex.group(1) if ex else '', 'running/unknown')
        rows.append((sid, m.group(1), m.group(2), verdict, '; '.join('%s/%s [%s] replay %s' % v for v in viol[:3]) or '; '.join('%s: %s' % i for i in incon[:2])[:200]))
out = ['# Seeded changes: what the checks report', '',
       'Each change was applied to a scratch copy of the current /repo (hooks + both fix: commits) and the named check was run (`tools/run_seeded.sh`).', '',
       '| seed (property) | check | tier | verdict | scenario/oracle that fired |', '|---|---|---|---|---|']
for r in rows: out.append('| %s | %s | %s | %s | %s |' % r)
out += ['', '## What each seed needs in order to manifest', '']
for d in sorted(glob.glob('/verif/seeded/C*')):
    meta = json.load(open(d + '/meta.json'))
    out.append('* **%s** — %s' % (os.path.basename(d), meta['needs_to_manifest']))
open('/verif/seeded/RESULTS.md', 'w').write('\n'.join(out) + '\n')
print('\n'.join(out[:40]))
