#!/bin/bash
# tools/final_quick.sh [props...] — run the registered quick checks on /repo, two at a time, evidence to evidence/, logs to scratch/final/
cd /verif; mkdir -p scratch/final
props=${@:-C01 C02 C03 C04 C05 C06 C07 C08 C09 C10 C11 C12 C13 C14 C15 C16 C17}
printf '%s\n' $props | xargs -P 2 -I{} bash -c 'VERIF_JOBS=8 /usr/bin/time -f "%e s" ./check {} --tier quick > scratch/final/{}.log 2>&1; echo "{} rc=$? $(tail -n 1 scratch/final/{}.log) $(grep -c KNOWN-FINDING scratch/final/{}.log) known; $(grep -E "inconclusive|VIOLATION|MISMATCH" scratch/final/{}.log | head -3 | tr "\n" " " | cut -c1-300)"'
