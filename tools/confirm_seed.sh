#!/bin/bash
# tools/confirm_seed.sh <worktree> <seed-id> <property>   — re-verify a sub-agent's seeded change in its scratch worktree, then store it under seeded/<seed-id>/
# (suite with the change must pass except the two known tests; demonstration fails 3/3 with the change and passes 3/3 without)
wt=$1; id=$2; prop=$3
out=/verif/seeded/$id; mkdir -p $out
cd $wt || exit 9
export CARGO_NET_OFFLINE=true
demo=$(ls tests/seeded_*.rs tests/seed_*.rs 2>/dev/null | head -1); demoname=$(basename $demo .rs)
log=$out/confirm.log; : > $log
git diff -- src > /tmp/confirm_$id.diff
cmp -s /tmp/confirm_$id.diff seed/patch.diff || echo "WARNING: working tree diff differs from seed/patch.diff" | tee -a $log
echo "== suite with change" >> $log
mv $demo /tmp/confirm_$id.demo.rs
cargo nextest run --workspace --no-fail-fast --test-threads 8 --offline 2>&1 | grep -E "FAIL|Summary" | sort -u >> $log
mv /tmp/confirm_$id.demo.rs $demo
fails_with=0; for i in 1 2 3; do timeout 600 cargo test --offline --test $demoname > /tmp/confirm_$id.run 2>&1 || fails_with=$((fails_with+1)); done
echo "== demo with change: failed $fails_with/3" >> $log; grep -E "^test |panicked" /tmp/confirm_$id.run | head -8 >> $log
git apply -R seed/patch.diff   # (not git stash: the stash is shared between worktrees)
fails_without=0; for i in 1 2 3; do timeout 600 cargo test --offline --test $demoname > /tmp/confirm_$id.run 2>&1 || fails_without=$((fails_without+1)); done
echo "== demo without change: failed $fails_without/3" >> $log
git apply seed/patch.diff
cp seed/patch.diff $out/patch.diff; cp $demo $out/; cp seed/notes.md $out/notes.md
rm -f /tmp/confirm_$id.*
cat $log
