# Persistent incremental solver (one z3 process, text interface).  Used (1) *during encoding* to discard
# control states whose guard is unsatisfiable -- semantic dead-path elimination, which never decides a
# property: dropping a state whose guard is UNSAT does not change the meaning of the formula, keeping one
# only costs time -- and (2) for the final queries, which are decided by check-sat-assuming over the
# definitions that are already loaded.
import subprocess, time, re, os
from .expr import *

class IncSolver(object):
    def __init__(s, z3bin='z3-new', per_check_ms=2000, logic='QF_BV', record=None):
        s.bin = z3bin
        s.p = subprocess.Popen([z3bin, '-in'], stdin=subprocess.PIPE, stdout=subprocess.PIPE, text=True, bufsize=1)
        s.em = Emitter()
        s.record = [] if record else None
        s.send('(set-option :print-success false)\n(set-option :produce-models true)\n(set-option :produce-unsat-cores true)\n(set-option :smt.core.minimize true)\n(set-logic %s)\n' % logic)
        s.cache = {}
        s.per_check_ms = per_check_ms; s.cur_timeout = None
        s.nchecks = 0; s.nunsat = 0; s.time = 0.0; s.nunknown = 0; s.nretries = 0; s.retry_factor = 8
        s.log = []; s.qtime = 0.0; s.nqueries = 0
    def send(s, text):
        s.p.stdin.write(text)
        if s.record is not None: s.record.append(text)
    def set_timeout(s, ms):
        if s.cur_timeout != ms:
            s.send('(set-option :timeout %d)\n' % ms); s.cur_timeout = ms
    def define(s, e):
        s.em.emit(e)
        L = s.em.take()
        if L: s.send('\n'.join(L) + '\n')
    def add(s, e):
        s.define(e)
        s.send('(assert %s)\n' % smt_name(e))
    def _ask(s, e):
        s.send('(check-sat-assuming (%s))\n' % smt_name(e))
        s.p.stdin.flush()
        while True:
            ans = s.p.stdout.readline()
            if ans == '': raise RuntimeError('solver process died')
            ans = ans.strip()
            if ans.startswith('(error'): raise RuntimeError('solver: ' + ans)
            if ans in ('sat', 'unsat', 'unknown', 'timeout'): return ans
    def _ask_many(s, lits):
        s.send('(check-sat-assuming (%s))\n' % ' '.join(smt_name(l) for l in lits))
        s.p.stdin.flush()
        while True:
            ans = s.p.stdout.readline()
            if ans == '': raise RuntimeError('solver process died')
            ans = ans.strip()
            if ans.startswith('(error'): raise RuntimeError('solver: ' + ans)
            if ans in ('sat', 'unsat', 'unknown', 'timeout'): return ans
    def learn_core(s, lits):
        s.send('(get-unsat-core)\n'); s.p.stdin.flush()
        line = s.p.stdout.readline().strip()
        while line.count('(') > line.count(')'):
            line += ' ' + s.p.stdout.readline().strip()
        if line.startswith('(error'): return
        names = set(x.strip('|') for x in line.strip().strip('()').split())
        ids = [l.id for l in lits if smt_name(l).strip('|') in names]
        if ids and len(ids) == len(names): learn_nogood(ids)
    def feasible(s, e):
        """False only if e is definitely unsatisfiable"""
        if e is TRUE: return True
        if e is FALSE: return False
        r = s.cache.get(e.id)
        if r is not None: return r
        t0 = time.time()
        s.define(e); s.set_timeout(s.per_check_ms)
        lits = e.args if e.op == 'and' else (e,)
        for l in lits: s.define(l)
        ans = s._ask_many(lits)
        if ans not in ('sat', 'unsat'):
            # a timed-out check keeps the state (sound), but states kept under infeasible guards inflate loop counters and allocation
            # counts of the feasible states they are merged with (seen under heavy machine load: spurious 'unwind'/'bound' obligations),
            # so an unknown answer is asked again with a much longer limit before it is accepted
            s.set_timeout(s.per_check_ms * s.retry_factor)
            ans = s._ask_many(lits)
            s.nretries += 1
        s.nchecks += 1
        r = ans != 'unsat'
        if ans == 'unsat':
            s.nunsat += 1
            if len(lits) > 1: s.learn_core(lits)
        elif ans != 'sat': s.nunknown += 1
        s.time += time.time() - t0
        s.cache[e.id] = r
        return r
    def check(s, name, e, timeout_s=120, model_vars=None):
        """final query: ('sat', model) | ('unsat', None) | ('unknown', reason)"""
        s.nqueries += 1
        if e is FALSE:
            s.log.append((name, 'unsat', 0.0, 'trivial')); return 'unsat', None
        t0 = time.time()
        s.define(e); s.set_timeout(int(timeout_s * 1000))
        if e.op == 'c': nm = 'true'
        ans = s._ask(e) if e is not TRUE else s._ask_true()
        dt = time.time() - t0; s.qtime += dt
        if ans == 'sat':
            names = model_vars if model_vars is not None else sorted(s.em.vars)
            model = {}
            for i in range(0, len(names), 300):
                s.send('(get-value (%s))\n' % ' '.join('|%s|' % n for n in names[i:i + 300])); s.p.stdin.flush()
                buf = ''
                depth = 0; started = False
                while True:
                    line = s.p.stdout.readline()
                    if line == '': break
                    buf += line
                    depth += line.count('(') - line.count(')')
                    if '(' in line: started = True
                    if started and depth <= 0: break
                for mm in re.finditer(r'\(\|([^|]*)\|\s+(true|false|#b[01]+|#x[0-9a-fA-F]+)\)', buf):
                    v = mm.group(2)
                    model[mm.group(1)] = (v == 'true') if v in ('true', 'false') else int(v[2:], 2 if v[1] == 'b' else 16)
            s.log.append((name, 'sat', dt, '')); return 'sat', model
        if ans == 'unsat':
            s.log.append((name, 'unsat', dt, '')); return 'unsat', None
        s.log.append((name, 'unknown', dt, ans)); return 'unknown', ans
    def _ask_true(s):
        s.send('(check-sat)\n'); s.p.stdin.flush()
        return s.p.stdout.readline().strip()
    def dump(s, path):
        if s.record is not None: open(path, 'w').write(''.join(s.record))
    def close(s):
        try:
            s.p.stdin.close(); s.p.terminate()
        except Exception: pass
Pruner = IncSolver
