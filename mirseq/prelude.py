# Glue for std / futures combinators that call back into crate code, written as MIR text so that the
# interpreter's own call/return/suspension machinery applies to it (a closure passed to Option::map may
# contain scheduling points).  Parsed with the same parser as rustc's dump.
def prelude_text(CAP):
    t = r'''
fn Option::map(_1: Option<T>, _2: F) -> Option<U> {
    bb0: {
        _3 = discriminant(_1);
        switchInt(move _3) -> [0: bb1, otherwise: bb2];
    }
    bb1: {
        _0 = Option::<U>::None;
        drop(_2) -> [return: bb4, unwind continue];
    }
    bb2: {
        _4 = move ((_1 as Some).0: T);
        _5 = (move _4,);
        _6 = <F as FnOnce<(T,)>>::call_once(move _2, move _5) -> [return: bb3, unwind continue];
    }
    bb3: {
        _0 = Option::<U>::Some(move _6);
        goto -> bb4;
    }
    bb4: {
        return;
    }
}

fn Result::map(_1: Result<T, E>, _2: F) -> Result<U, E> {
    bb0: {
        _3 = discriminant(_1);
        switchInt(move _3) -> [0: bb2, otherwise: bb1];
    }
    bb1: {
        _7 = move ((_1 as Err).0: E);
        _0 = Result::<U, E>::Err(move _7);
        drop(_2) -> [return: bb4, unwind continue];
    }
    bb2: {
        _4 = move ((_1 as Ok).0: T);
        _5 = (move _4,);
        _6 = <F as FnOnce<(T,)>>::call_once(move _2, move _5) -> [return: bb3, unwind continue];
    }
    bb3: {
        _0 = Result::<U, E>::Ok(move _6);
        goto -> bb4;
    }
    bb4: {
        return;
    }
}

fn Option::and_then(_1: Option<T>, _2: F) -> Option<U> {
    bb0: {
        _3 = discriminant(_1);
        switchInt(move _3) -> [0: bb1, otherwise: bb2];
    }
    bb1: {
        _0 = Option::<U>::None;
        drop(_2) -> [return: bb3, unwind continue];
    }
    bb2: {
        _4 = move ((_1 as Some).0: T);
        _5 = (move _4,);
        _0 = <F as FnOnce<(T,)>>::call_once(move _2, move _5) -> [return: bb3, unwind continue];
    }
    bb3: {
        return;
    }
}

fn Option::filter(_1: Option<T>, _2: F) -> Option<T> {
    bb0: {
        _3 = discriminant(_1);
        switchInt(move _3) -> [0: bb1, otherwise: bb2];
    }
    bb1: {
        _0 = Option::<T>::None;
        drop(_2) -> [return: bb5, unwind continue];
    }
    bb2: {
        _4 = &((_1 as Some).0: T);
        _5 = (copy _4,);
        _6 = <F as FnOnce<(&T,)>>::call_once(move _2, move _5) -> [return: bb3, unwind continue];
    }
    bb3: {
        switchInt(move _6) -> [0: bb4, otherwise: bb6];
    }
    bb4: {
        _0 = Option::<T>::None;
        drop(_1) -> [return: bb5, unwind continue];
    }
    bb5: {
        return;
    }
    bb6: {
        _0 = move _1;
        goto -> bb5;
    }
}

fn Option::is_some_and(_1: Option<T>, _2: F) -> bool {
    bb0: {
        _3 = discriminant(_1);
        switchInt(move _3) -> [0: bb1, otherwise: bb2];
    }
    bb1: {
        _0 = const false;
        drop(_2) -> [return: bb3, unwind continue];
    }
    bb2: {
        _4 = move ((_1 as Some).0: T);
        _5 = (move _4,);
        _0 = <F as FnOnce<(T,)>>::call_once(move _2, move _5) -> [return: bb3, unwind continue];
    }
    bb3: {
        return;
    }
}

fn Option::map_or(_1: Option<T>, _2: U, _3: F) -> U {
    bb0: {
        _4 = discriminant(_1);
        switchInt(move _4) -> [0: bb1, otherwise: bb2];
    }
    bb1: {
        _0 = move _2;
        drop(_3) -> [return: bb3, unwind continue];
    }
    bb2: {
        _5 = move ((_1 as Some).0: T);
        _6 = (move _5,);
        _0 = <F as FnOnce<(T,)>>::call_once(move _3, move _6) -> [return: bb4, unwind continue];
    }
    bb3: {
        return;
    }
    bb4: {
        drop(_2) -> [return: bb3, unwind continue];
    }
}

fn Option::unwrap_or(_1: Option<T>, _2: T) -> T {
    bb0: {
        _3 = discriminant(_1);
        switchInt(move _3) -> [0: bb1, otherwise: bb2];
    }
    bb1: {
        _0 = move _2;
        goto -> bb3;
    }
    bb2: {
        _0 = move ((_1 as Some).0: T);
        drop(_2) -> [return: bb3, unwind continue];
    }
    bb3: {
        return;
    }
}

fn Option::unwrap_or_else(_1: Option<T>, _2: F) -> T {
    bb0: {
        _3 = discriminant(_1);
        switchInt(move _3) -> [0: bb1, otherwise: bb2];
    }
    bb1: {
        _4 = ();
        _0 = <F as FnOnce<()>>::call_once(move _2, move _4) -> [return: bb3, unwind continue];
    }
    bb2: {
        _0 = move ((_1 as Some).0: T);
        drop(_2) -> [return: bb3, unwind continue];
    }
    bb3: {
        return;
    }
}

fn Option::or_else(_1: Option<T>, _2: F) -> Option<T> {
    bb0: {
        _3 = discriminant(_1);
        switchInt(move _3) -> [0: bb1, otherwise: bb2];
    }
    bb1: {
        _4 = ();
        _0 = <F as FnOnce<()>>::call_once(move _2, move _4) -> [return: bb3, unwind continue];
    }
    bb2: {
        _0 = move _1;
        drop(_2) -> [return: bb3, unwind continue];
    }
    bb3: {
        return;
    }
}

fn Result::and_then(_1: Result<T, E>, _2: F) -> Result<U, E> {
    bb0: {
        _3 = discriminant(_1);
        switchInt(move _3) -> [0: bb2, otherwise: bb1];
    }
    bb1: {
        _7 = move ((_1 as Err).0: E);
        _0 = Result::<U, E>::Err(move _7);
        drop(_2) -> [return: bb3, unwind continue];
    }
    bb2: {
        _4 = move ((_1 as Ok).0: T);
        _5 = (move _4,);
        _0 = <F as FnOnce<(T,)>>::call_once(move _2, move _5) -> [return: bb3, unwind continue];
    }
    bb3: {
        return;
    }
}

fn Result::map_err(_1: Result<T, E>, _2: F) -> Result<T, G> {
    bb0: {
        _3 = discriminant(_1);
        switchInt(move _3) -> [0: bb1, otherwise: bb2];
    }
    bb1: {
        _7 = move ((_1 as Ok).0: T);
        _0 = Result::<T, G>::Ok(move _7);
        drop(_2) -> [return: bb4, unwind continue];
    }
    bb2: {
        _4 = move ((_1 as Err).0: E);
        _5 = (move _4,);
        _6 = <F as FnOnce<(E,)>>::call_once(move _2, move _5) -> [return: bb3, unwind continue];
    }
    bb3: {
        _0 = Result::<T, G>::Err(move _6);
        goto -> bb4;
    }
    bb4: {
        return;
    }
}

fn Result::unwrap_or(_1: Result<T, E>, _2: T) -> T {
    bb0: {
        _3 = discriminant(_1);
        switchInt(move _3) -> [0: bb2, otherwise: bb1];
    }
    bb1: {
        _0 = move _2;
        drop(_1) -> [return: bb3, unwind continue];
    }
    bb2: {
        _0 = move ((_1 as Ok).0: T);
        drop(_2) -> [return: bb3, unwind continue];
    }
    bb3: {
        return;
    }
}

fn prelude::Iterator::any(_1: &mut I, _2: F) -> bool {
    bb0: {
        _4 = <I as Iterator>::next(copy _1) -> [return: bb1, unwind continue];
    }
    bb1: {
        _5 = discriminant(_4);
        switchInt(move _5) -> [0: bb3, otherwise: bb2];
    }
    bb2: {
        _6 = move ((_4 as Some).0: T);
        _7 = (move _6,);
        _8 = &mut _2;
        _9 = <F as FnMut<(T,)>>::call_mut(copy _8, move _7) -> [return: bb5, unwind continue];
    }
    bb3: {
        _0 = const false;
        drop(_2) -> [return: bb4, unwind continue];
    }
    bb4: {
        return;
    }
    bb5: {
        switchInt(move _9) -> [0: bb0, otherwise: bb6];
    }
    bb6: {
        _0 = const true;
        drop(_2) -> [return: bb4, unwind continue];
    }
}

fn prelude::Iterator::all(_1: &mut I, _2: F) -> bool {
    bb0: {
        _4 = <I as Iterator>::next(copy _1) -> [return: bb1, unwind continue];
    }
    bb1: {
        _5 = discriminant(_4);
        switchInt(move _5) -> [0: bb3, otherwise: bb2];
    }
    bb2: {
        _6 = move ((_4 as Some).0: T);
        _7 = (move _6,);
        _8 = &mut _2;
        _9 = <F as FnMut<(T,)>>::call_mut(copy _8, move _7) -> [return: bb5, unwind continue];
    }
    bb3: {
        _0 = const true;
        drop(_2) -> [return: bb4, unwind continue];
    }
    bb4: {
        return;
    }
    bb5: {
        switchInt(move _9) -> [0: bb6, otherwise: bb0];
    }
    bb6: {
        _0 = const false;
        drop(_2) -> [return: bb4, unwind continue];
    }
}

fn prelude::Iterator::count(_1: I) -> usize {
    bb0: {
        _0 = const 0_usize;
        goto -> bb1;
    }
    bb1: {
        _3 = &mut _1;
        _4 = <I as Iterator>::next(copy _3) -> [return: bb2, unwind continue];
    }
    bb2: {
        _5 = discriminant(_4);
        switchInt(move _5) -> [0: bb4, otherwise: bb3];
    }
    bb3: {
        _0 = Add(copy _0, const 1_usize);
        goto -> bb1;
    }
    bb4: {
        return;
    }
}

fn mem::drop(_1: T) -> () {
    bb0: {
        drop(_1) -> [return: bb1, unwind continue];
    }
    bb1: {
        return;
    }
}

fn prelude::Iterator::for_each(_1: I, _2: F) -> () {
    bb0: {
        _3 = &mut _1;
        _4 = <I as Iterator>::next(copy _3) -> [return: bb1, unwind continue];
    }
    bb1: {
        _5 = discriminant(_4);
        switchInt(move _5) -> [0: bb3, otherwise: bb2];
    }
    bb2: {
        _6 = move ((_4 as Some).0: T);
        _7 = (move _6,);
        _8 = &mut _2;
        _9 = <F as FnMut<(T,)>>::call_mut(copy _8, move _7) -> [return: bb0, unwind continue];
    }
    bb3: {
        drop(_2) -> [return: bb4, unwind continue];
    }
    bb4: {
        return;
    }
}

fn Waker::wake(_1: Waker) -> () {
    bb0: {
        _2 = &_1;
        _3 = Waker::wake_by_ref(copy _2) -> [return: bb1, unwind continue];
    }
    bb1: {
        drop(_1) -> [return: bb2, unwind continue];
    }
    bb2: {
        return;
    }
}

fn prelude::task_wake(_1: usize) -> () {
    bb0: {
        _0 = __task_wake(copy _1) -> [return: bb1, unwind continue];
    }
    bb1: {
        return;
    }
}

fn prelude::poll_unpin(_1: &mut F, _2: &mut Context<'_>) -> Poll<T> {
    bb0: {
        _3 = Pin::<&mut F>::new(copy _1) -> [return: bb1, unwind continue];
    }
    bb1: {
        _0 = <F as Future>::poll(move _3, copy _2) -> [return: bb2, unwind continue];
    }
    bb2: {
        return;
    }
}

fn prelude::poll_next_unpin(_1: &mut S, _2: &mut Context<'_>) -> Poll<Option<T>> {
    bb0: {
        _3 = Pin::<&mut S>::new(copy _1) -> [return: bb1, unwind continue];
    }
    bb1: {
        _0 = <S as Stream>::poll_next(move _3, copy _2) -> [return: bb2, unwind continue];
    }
    bb2: {
        return;
    }
}

fn prelude::boxed(_1: F) -> Pin<Box<dyn Future>> {
    bb0: {
        _2 = Box::<F>::new(move _1) -> [return: bb1, unwind continue];
    }
    bb1: {
        _0 = Pin::<Box<F>>::new_unchecked(move _2) -> [return: bb2, unwind continue];
    }
    bb2: {
        return;
    }
}

fn oneshot::Sender::send(_1: Sender<T>, _2: T) -> Result<(), T> {
    bb0: {
        _3 = __oneshot_send(copy _1, move _2) -> [return: bb1, unwind continue];
    }
    bb1: {
        _0 = move (_3.0: Result<(), T>);
        _4 = move (_3.1: Option<Waker>);
        _5 = discriminant(_4);
        switchInt(move _5) -> [0: bb3, otherwise: bb2];
    }
    bb2: {
        _6 = move ((_4 as Some).0: Waker);
        _7 = Waker::wake(move _6) -> [return: bb3, unwind continue];
    }
    bb3: {
        return;
    }
}

fn prelude::oneshot_drop(_1: &mut OneEnd) -> () {
    bb0: {
        _3 = __oneshot_close(copy _1) -> [return: bb1, unwind continue];
    }
    bb1: {
        _5 = discriminant(_3);
        switchInt(move _5) -> [0: bb3, otherwise: bb2];
    }
    bb2: {
        _6 = move ((_3 as Some).0: Waker);
        _7 = Waker::wake(move _6) -> [return: bb3, unwind continue];
    }
    bb3: {
        return;
    }
}
'''
    # Vec::retain / VecDeque::retain unrolled for the container capacity
    for name in ('Vec::retain', 'VecDeque::retain'):
        L = ['fn %s(_1: &mut Vec<T>, _2: F) -> () {' % name, '    bb0: {']
        for i in range(CAP): L.append('        _%d = const false;' % (20 + i))
        L.append('        _10 = Vec::<T>::len(copy _1) -> [return: bb1, unwind continue];')
        L.append('    }')
        b = 1
        for i in range(CAP):
            L += ['    bb%d: {' % b, '        _11 = Lt(const %d_usize, copy _10);' % i,
                  '        switchInt(move _11) -> [0: bb%d, otherwise: bb%d];' % (1 + 3 * CAP, b + 1), '    }',
                  '    bb%d: {' % (b + 1), '        _12 = __vec_elem_ref(copy _1, const %d_usize) -> [return: bb%d, unwind continue];' % (i, b + 2), '    }',
                  '    bb%d: {' % (b + 2), '        _13 = (copy _12,);', '        _14 = &mut _2;',
                  '        _%d = <F as FnMut<(&T,)>>::call_mut(copy _14, move _13) -> [return: bb%d, unwind continue];' % (20 + i, b + 3), '    }']
            b += 3
        L += ['    bb%d: {' % b, '        _15 = __vec_compact(copy _1, %s) -> [return: bb%d, unwind continue];' % (', '.join('copy _%d' % (20 + i) for i in range(CAP)), b + 1), '    }',
              '    bb%d: {' % (b + 1), '        return;', '    }', '}', '']
        t += '\n'.join(L) + '\n'
    return t

PRELUDE_TRAIT = {
    ('Iterator', '*', 'for_each'): 'prelude::Iterator::for_each',
    ('Iterator', '*', 'any'): 'prelude::Iterator::any',
    ('Iterator', '*', 'all'): 'prelude::Iterator::all',
    ('Iterator', '*', 'count'): 'prelude::Iterator::count',
    ('FutureExt', '*', 'poll_unpin'): 'prelude::poll_unpin',
    ('StreamExt', '*', 'poll_next_unpin'): 'prelude::poll_next_unpin',
    ('FutureExt', '*', 'boxed'): 'prelude::boxed',
}

FUTURES_TEXT = r'''
fn prelude::oneshot_recv_poll(_1: Pin<&mut Receiver<T>>, _2: &mut Context<'_>) -> Poll<Result<T, Canceled>> {
    bb0: {
        _0 = __oneshot_poll(copy _1, copy _2) -> [return: bb1, unwind continue];
    }
    bb1: {
        return;
    }
}
'''
