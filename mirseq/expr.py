# Hash-consed expression DAG (Bool + fixed-width bit-vectors) with eager local simplification
# and SMT-LIB2 emission.  Everything the encoder produces is one of these nodes; z3/cvc5 only
# ever see the final text.
import sys
sys.setrecursionlimit(1000000)
W = 12                      # width of every integer in the encoding (values stay tiny within the bounds;
                            # arithmetic that could wrap at this width raises a bound obligation)
MASK = (1 << W) - 1

class E(object):
    __slots__ = ('op', 'args', 'sort', 'id', 'val', '_conj', '_cs', 'act')
    def __repr__(s):
        return show(s)

_tab = {}
_n = [0]
def _mk(op, args, sort, val=None):
    key = (op, sort, val) + tuple(a.id for a in args)
    e = _tab.get(key)
    if e is None:
        e = E(); e.op = op; e.args = args; e.sort = sort; e.val = val; e._conj = None; e._cs = None; e.act = None
        e.id = _n[0]; _n[0] += 1
        _tab[key] = e
    return e

def nodes(): return _n[0]
TRUE = _mk('c', (), 'B', True)
FALSE = _mk('c', (), 'B', False)
def BoolC(b): return TRUE if b else FALSE
def BV(n): return _mk('c', (), 'V', n & MASK)
ZERO = BV(0); ONE = BV(1)
def Var(name, sort='B'): return _mk('var', (), sort, name)
def ActVar(name, slot, j):
    """budget literal: `slot` is taken for at least j+1 steps.  Prefix-closed (a_j => a_{j-1}); the side constraints are
    asserted separately, And() uses them to keep only the strongest literal per slot"""
    e = _mk('var', (), 'B', name); e.act = (slot, j); return e
def is_const(e): return e.op == 'c'
def is_true(e): return e is TRUE
def is_false(e): return e is FALSE

def Not(a):
    if a.op == 'c': return BoolC(not a.val)
    if a.op == 'not': return a.args[0]
    return _mk('not', (a,), 'B')

def _neg_id(a):
    # id of the syntactic negation of a if it exists already, else None (no allocation)
    if a.op == 'not': return a.args[0].id
    e = _tab.get(('not', 'B', None, a.id))
    return e.id if e is not None else None

def neg_id(a): return _neg_id(a)

# learned nogoods: sets of node ids that cannot hold together (UNSAT cores returned by the pruning solver).  And() consults
# them, so a combination once refuted is recognised syntactically wherever it recurs.
NOGOODS = {}        # member id -> list of frozenset(ids)
NG_STATS = {'learned': 0, 'hits': 0}
def learn_nogood(ids):
    ids = frozenset(ids)
    if not ids or len(ids) > 8: return
    k = min(ids)
    L = NOGOODS.setdefault(k, [])
    if ids in L: return
    L.append(ids); NG_STATS['learned'] += 1
    if DEBUG_MODEL is None: NG_ORIGIN[ids] = NG_STATS['learned']
def reset_nogoods():
    NOGOODS.clear(); NG_STATS['learned'] = 0; NG_STATS['hits'] = 0

LAST_FALSE_SITE = [0]
LAST_NG = [None]
NG_ORIGIN = {}
def _dbg_false(n):
    LAST_FALSE_SITE[0] = n
    return FALSE

def And(*xs):
    out = []; seen = set()
    stack = list(reversed(xs))
    comp = None          # composite conjuncts (not(and ..) / or ..) kept for unit propagation
    pos = None; neg = None      # budget literals: slot -> (j, node)
    while stack:
        x = stack.pop()
        if x is TRUE: continue
        if x is FALSE: return _dbg_false(1)
        if x.op == 'and':
            stack.extend(reversed(x.args)); continue
        if x.id in seen: continue
        a = x.act
        if a is not None:
            if pos is None: pos = {}
            p = pos.get(a[0])
            if p is None or p[0] < a[1]: pos[a[0]] = (a[1], x)
            continue
        if x.op == 'not':
            a = x.args[0].act
            if a is not None:
                if neg is None: neg = {}
                p = neg.get(a[0])
                if p is None or p[0] > a[1]: neg[a[0]] = (a[1], x)
                continue
        n = _neg_id(x)
        if n is not None and n in seen: return _dbg_false(2)
        seen.add(x.id); out.append(x)
        if x.op == 'or' or (x.op == 'not' and x.args[0].op == 'and'):
            if comp is None: comp = []
            comp.append(x)
    if pos is not None:
        for sl, (j, x) in pos.items():
            if neg is not None:
                q = neg.get(sl)
                if q is not None and q[0] <= j: return _dbg_false(3)
            out.append(x); seen.add(x.id)
    if neg is not None:
        for sl, (j, x) in neg.items():
            out.append(x); seen.add(x.id)
    if comp is not None and len(out) > 1:
        # unit propagation of clauses against the literals present
        def holds(l):       # literal l known true / false / unknown  -> True / False / None
            if l.id in seen: return True
            a = l.act
            if a is not None:
                if pos is not None:
                    p = pos.get(a[0])
                    if p is not None and p[0] >= a[1]: return True
                if neg is not None:
                    q = neg.get(a[0])
                    if q is not None and q[0] <= a[1]: return False
                return None
            if l.op == 'not':
                r = holds(l.args[0]) if l.args[0].act is not None else None
                if r is not None: return not r
            nl = _neg_id(l)
            if nl is not None and nl in seen: return False
            return None
        changed = False
        for x in comp:
            lits = x.args if x.op == 'or' else x.args[0].args      # clause = OR(lits)  resp.  OR(not l for l in lits)
            isneg = x.op != 'or'
            rem = []; sat = False
            for l in lits:
                if l is x: continue
                h = holds(l)
                if isneg:
                    if h is True: continue
                    if h is False: sat = True; break
                    rem.append(l)
                else:
                    if h is True: sat = True; break
                    if h is False: continue
                    rem.append(l)
            if sat:
                out = [o for o in out if o is not x]; seen.discard(x.id); changed = True
            elif len(rem) == 0: return _dbg_false(4)
            elif len(rem) < len(lits):
                out = [o for o in out if o is not x]; seen.discard(x.id); changed = True
                if isneg: out.append(Not(rem[0]) if len(rem) == 1 else Not(_and_raw(rem)))
                else: out.append(rem[0] if len(rem) == 1 else _or_raw(rem))
        if changed: return And(*out)
    if DEBUG_MODEL is not None and False: pass
    if not out: return TRUE
    if len(out) == 1: return out[0]
    if NOGOODS:
        for x in out:
            L = NOGOODS.get(x.id)
            if L:
                for ng in L:
                    if ng <= seen:
                        NG_STATS['hits'] += 1; LAST_NG[0] = ng; return _dbg_false(5)
    out.sort(key=lambda e: e.id)
    return _mk('and', tuple(out), 'B')

_And_impl = And
def And(*xs):
    r = _And_impl(*xs)
    if DEBUG_MODEL is not None and r is FALSE and all(evaluate(x, DEBUG_MODEL, DEBUG_CACHE) for x in xs):
        import traceback
        if LAST_FALSE_SITE[0] == 5 and not CHECKED.get(LAST_NG[0]):
            CHECKED[LAST_NG[0]] = 1
            byid = {e.id: e for e in _tab.values()}
            print('NOGOOD', sorted(LAST_NG[0]), 'origin', NG_ORIGIN.get(LAST_NG[0]), [(i, evaluate(byid[i], DEBUG_MODEL, DEBUG_CACHE), show(byid[i], 2)[:150]) for i in LAST_NG[0]])
        print('UNSOUND AND -> FALSE at site', LAST_FALSE_SITE[0], [show(x, 3)[:200] for x in xs]); traceback.print_stack(limit=6)
    return r

def _and_raw(xs):
    xs = sorted(xs, key=lambda e: e.id)
    return _mk('and', tuple(xs), 'B')
def _or_raw(xs):
    xs = sorted(xs, key=lambda e: e.id)
    return _mk('or', tuple(xs), 'B')

def Or(*xs):
    out = []; seen = set()
    stack = list(reversed(xs))
    while stack:
        x = stack.pop()
        if x is FALSE: continue
        if x is TRUE: return TRUE
        if x.op == 'or':
            stack.extend(reversed(x.args)); continue
        if x.id in seen: continue
        n = _neg_id(x)
        if n is not None and n in seen: return TRUE
        seen.add(x.id); out.append(x)
    if not out: return FALSE
    if len(out) == 1: return out[0]
    if len(out) == 2:
        # (g & c) | (g & !c)  ->  g     (join after a two-way branch)
        a, b = out
        if a.op == 'and' and b.op == 'and' and len(a.args) == len(b.args):
            sa = set(x.id for x in a.args); sb = set(x.id for x in b.args)
            da = [x for x in a.args if x.id not in sb]; db = [x for x in b.args if x.id not in sa]
            if len(da) == 1 and len(db) == 1 and _neg_id(da[0]) == db[0].id:
                return And(*[x for x in a.args if x.id in sb])
        # g | (g & x) -> g
        for p, q in ((a, b), (b, a)):
            if q.op == 'and' and any(x is p for x in q.args): return p
    out.sort(key=lambda e: e.id)
    return _mk('or', tuple(out), 'B')

def Implies(a, b): return Or(Not(a), b)

def Ite(c, a, b):
    if c is TRUE: return a
    if c is FALSE: return b
    if a is b: return a
    if a.sort != b.sort: raise TypeError('ill-sorted ite: %s / %s' % (show(a), show(b)))
    if a.sort == 'B':
        if a is TRUE and b is FALSE: return c
        if a is FALSE and b is TRUE: return Not(c)
        if a is TRUE: return Or(c, b)
        if a is FALSE: return And(Not(c), b)
        if b is TRUE: return Or(Not(c), a)
        if b is FALSE: return And(c, a)
    if c.op == 'not':
        return Ite(c.args[0], b, a)
    if a.sort == 'V':
        ca = consts(a); cb = consts(b)
        if ca is not None and cb is not None and len(ca) + len(cb) <= CSLIMIT:
            nc = Not(c); d = {}
            for k, g in ca.items():
                x = And(c, g)
                if x is not FALSE: d[k] = x
            for k, g in cb.items():
                x = And(nc, g)
                if x is not FALSE: d[k] = Or(d.get(k, FALSE), x)
            return from_cases(d)
    # ite(c, x, ite(c, y, z)) -> ite(c, x, z)
    if b.op == 'ite' and b.args[0] is c: b = b.args[2]
    if a.op == 'ite' and a.args[0] is c: a = a.args[1]
    if a is b: return a
    return _mk('ite', (c, a, b), a.sort)

CSLIMIT = 24
DEBUG_MODEL = None
DEBUG_CACHE = {}
CHECKED = {}
def consts(e):
    """{constant: guard} if e is a (normalised) choice among constants, else None"""
    if e.op == 'c': return {e.val: TRUE}
    cs = e._cs
    if cs is None and e.op == 'ite' and e.sort == 'V':
        a = consts(e.args[1]); b = consts(e.args[2]) if a is not None else None
        if a is None or b is None or len(a) + len(b) > CSLIMIT: e._cs = False; return None
        c = e.args[0]; nc = Not(c); d = {}
        for k, g in a.items():
            x = And(c, g)
            if x is not FALSE: d[k] = x
        for k, g in b.items():
            x = And(nc, g)
            if x is not FALSE: d[k] = Or(d.get(k, FALSE), x)
        e._cs = d; return d
    return cs or None

def from_cases(d):
    """canonical node for a choice among constants with mutually exclusive guards"""
    if not d: return ZERO
    if DEBUG_MODEL is not None and not any(evaluate(g, DEBUG_MODEL, DEBUG_CACHE) for g in d.values()):
        import traceback
        print('NON-EXHAUSTIVE CASES', {k: show(g, 2)[:120] for k, g in d.items()}); traceback.print_stack(limit=9)
    ks = sorted(d)
    if len(ks) == 1: return BV(ks[0])
    e = BV(ks[-1])
    for k in reversed(ks[:-1]):
        g = d[k]
        if g is TRUE: e = BV(k); continue
        e = _mk('ite', (g, BV(k), e), 'V')
    if e.op == 'ite' and e._cs is None: e._cs = d
    return e

def _map_cases(a, f):
    d = {}
    for k, g in consts(a).items():
        k2 = f(k) & MASK
        d[k2] = Or(d.get(k2, FALSE), g)
    return from_cases(d)

def Eq(a, b):
    if a is b: return TRUE
    if a.op == 'c' and b.op == 'c': return BoolC(a.val == b.val)
    if a.sort == 'B':
        if a.op == 'c': return b if a.val else Not(b)
        if b.op == 'c': return a if b.val else Not(a)
    if a.sort == 'V':
        ca = consts(a); cb = consts(b)
        if ca is not None and cb is not None:
            if len(ca) > len(cb): ca, cb = cb, ca
            return Or(*[And(g, cb[k]) for k, g in ca.items() if k in cb])
    # push comparison with a constant through ite trees of constants (keeps tags cheap)
    if b.op == 'c' and a.op == 'ite': return _eq_const(a, b)
    if a.op == 'c' and b.op == 'ite': return _eq_const(b, a)
    if a.id > b.id: a, b = b, a
    return _mk('eq', (a, b), 'B')

_eqc_cache = {}
def _eq_const(a, k):
    key = (a.id, k.id)
    r = _eqc_cache.get(key)
    if r is not None: return r
    if a.op == 'ite':
        r = Ite(a.args[0], _eq_const(a.args[1], k), _eq_const(a.args[2], k))
    elif a.op == 'c':
        r = BoolC(a.val == k.val)
    else:
        x, y = (a, k) if a.id < k.id else (k, a)
        r = _mk('eq', (x, y), 'B')
    _eqc_cache[key] = r
    return r

def Ne(a, b): return Not(Eq(a, b))
def Add(a, b):
    if a.op == 'c' and b.op == 'c': return BV(a.val + b.val)
    if a.op == 'c' and a.val == 0: return b
    if b.op == 'c' and b.val == 0: return a
    if b.op == 'c' and consts(a) is not None: return _map_cases(a, lambda k: k + b.val)
    if a.op == 'c' and consts(b) is not None: return _map_cases(b, lambda k: k + a.val)
    return _mk('bvadd', (a, b), 'V')
def Sub(a, b):
    if a.op == 'c' and b.op == 'c': return BV(a.val - b.val)
    if b.op == 'c' and b.val == 0: return a
    if a is b: return ZERO
    if b.op == 'c' and consts(a) is not None: return _map_cases(a, lambda k: k - b.val)
    return _mk('bvsub', (a, b), 'V')
def _small_ite(a, d=6):
    # ite tree of constants of depth <= d
    while d > 0:
        if a.op == 'c': return True
        if a.op != 'ite' or a.args[1].op != 'c': return False
        a = a.args[2]; d -= 1
    return a.op == 'c'
def Ult(a, b):
    if a.op == 'c' and b.op == 'c': return BoolC(a.val < b.val)
    if b.op == 'c' and b.val == 0: return FALSE
    if a is b: return FALSE
    ca = consts(a); cb = consts(b)
    if ca is not None and cb is not None:
        if len(ca) * len(cb) <= 4096:
            out = []
            if len(cb) == 1:
                kb = next(iter(cb)); return Or(*[g for k, g in ca.items() if k < kb])
            if len(ca) == 1:
                ka = next(iter(ca)); return Or(*[g for k, g in cb.items() if ka < k])
            for ka, ga in ca.items():
                gb = Or(*[g for k, g in cb.items() if ka < k])
                out.append(And(ga, gb))
            return Or(*out)
    return _mk('bvult', (a, b), 'B')
def Ule(a, b): return Not(Ult(b, a))
def Ugt(a, b): return Ult(b, a)
def Uge(a, b): return Not(Ult(a, b))

# ---------------------------------------------------------------- guard-relative simplification
def conj(g):
    """ids of the top-level conjuncts of g (g itself included)"""
    c = g._conj
    if c is None:
        if g.op == 'and':
            c = frozenset([x.id for x in g.args] + [g.id])
        else:
            c = frozenset([g.id])
        g._conj = c
    return c

def implied(g, c):
    """True if c is syntactically implied by g, False if its negation is, else None"""
    if c.op == 'c': return c.val
    cg = conj(g)
    if c.id in cg: return True
    a = c.act
    if a is None and c.op == 'not' and c.args[0].act is not None:
        r = implied(g, c.args[0])
        return None if r is None else (not r)
    if a is not None:
        for x in (g.args if g.op == 'and' else (g,)):
            b = x.act
            if b is not None and b[0] == a[0] and b[1] >= a[1]: return True
            if x.op == 'not':
                b = x.args[0].act
                if b is not None and b[0] == a[0] and b[1] <= a[1]: return False
        return None
    n = _neg_id(c)
    if n is not None and n in cg: return False
    if c.op == 'and':
        allin = True
        for x in c.args:
            if x.id in cg: continue
            allin = False
            nx = _neg_id(x)
            if nx is not None and nx in cg: return False
        if allin: return True
    elif c.op == 'or':
        anyunk = False
        for x in c.args:
            if x.id in cg: return True
            nx = _neg_id(x)
            if not (nx is not None and nx in cg): anyunk = True
        if not anyunk: return False
    elif c.op == 'not':
        r = implied(g, c.args[0])
        if r is not None: return not r
    return None

_implied_impl = implied
def implied(g, c):
    r = _implied_impl(g, c)
    if DEBUG_MODEL is not None and r is not None and evaluate(g, DEBUG_MODEL, DEBUG_CACHE) and evaluate(c, DEBUG_MODEL, DEBUG_CACHE) != r:
        import traceback
        print('UNSOUND IMPLIED', r, 'g=', show(g, 2)[:300], 'c=', show(c, 3)[:300]); traceback.print_stack(limit=7)
    return r

def restrict(e, g, depth=64):
    """simplify e under the assumption g (top-level ite chain only)"""
    if g is TRUE: return e
    while depth > 0 and e.op == 'ite':
        r = implied(g, e.args[0])
        if r is True: e = e.args[1]
        elif r is False: e = e.args[2]
        else: break
        depth -= 1
    if e.sort == 'B' and e.op != 'c':
        r = implied(g, e)
        if r is not None: return BoolC(r)
    return e

def cases(e, g=TRUE, limit=64):
    """enumerate (constant value, guard) leaves of an ite tree; returns None if a leaf is not constant"""
    cs = consts(e)
    if cs is not None: return sorted(cs.items())
    out = {}
    def rec(x, c):
        if c is FALSE: return True
        if x.op == 'c':
            out[x.val] = Or(out.get(x.val, FALSE), c); return len(out) <= limit
        if x.op == 'ite':
            return rec(x.args[1], And(c, x.args[0])) and rec(x.args[2], And(c, Not(x.args[0])))
        return False
    if not rec(e, TRUE): return None
    return sorted(out.items())

# ---------------------------------------------------------------- printing / SMT-LIB
def show(e, d=3):
    if e.op == 'c': return str(e.val).lower() if e.sort == 'B' else str(e.val)
    if e.op == 'var': return e.val
    if d == 0: return '#%d' % e.id
    return '(' + e.op + ' ' + ' '.join(show(a, d - 1) for a in e.args) + ')'

_SMTOP = {'not': 'not', 'and': 'and', 'or': 'or', 'ite': 'ite', 'eq': '=', 'bvadd': 'bvadd', 'bvsub': 'bvsub', 'bvult': 'bvult'}
def smt_name(e):
    if e.op == 'c':
        if e.sort == 'B': return 'true' if e.val else 'false'
        return '(_ bv%d %d)' % (e.val, W)
    if e.op == 'var': return '|' + e.val + '|'
    return 'n%d' % e.id

class Emitter(object):
    """incremental emitter: define-fun for every node reachable from the roots asked so far"""
    def __init__(s):
        s.done = set(); s.lines = []; s.vars = {}
    def emit(s, root):
        if root.id in s.done or root.op == 'c': return
        stack = [(root, False)]
        while stack:
            e, expanded = stack.pop()
            if e.id in s.done or e.op == 'c': continue
            if e.op == 'var':
                s.done.add(e.id); s.vars[e.val] = e
                s.lines.append('(declare-const |%s| %s)' % (e.val, 'Bool' if e.sort == 'B' else '(_ BitVec %d)' % W))
                continue
            if expanded:
                s.done.add(e.id)
                # definitional equations instead of define-fun: z3 4.8 expands nullary define-funs as trees
                s.lines.append('(declare-const n%d %s)' % (e.id, 'Bool' if e.sort == 'B' else '(_ BitVec %d)' % W))
                s.lines.append('(assert (= n%d (%s %s)))' % (e.id, _SMTOP[e.op], ' '.join(smt_name(a) for a in e.args)))
            else:
                stack.append((e, True))
                for a in e.args:
                    if a.id not in s.done and a.op != 'c': stack.append((a, False))
    def take(s):
        l = s.lines; s.lines = []
        return l

def evaluate(e, model, cache=None):
    """evaluate under a {varname: python value} model (missing vars default to False/0)"""
    if cache is None: cache = {}
    stack = [e]
    while stack:
        x = stack[-1]
        if x.id in cache: stack.pop(); continue
        if x.op == 'c': cache[x.id] = x.val; stack.pop(); continue
        if x.op == 'var': cache[x.id] = model.get(x.val, False if x.sort == 'B' else 0); stack.pop(); continue
        if x.op == 'ite':
            c = x.args[0]
            if c.id not in cache: stack.append(c); continue
            br = x.args[1] if cache[c.id] else x.args[2]
            if br.id not in cache: stack.append(br); continue
            cache[x.id] = cache[br.id]; stack.pop(); continue
        pend = [a for a in x.args if a.id not in cache]
        if pend: stack.extend(pend); continue
        v = [cache[a.id] for a in x.args]
        op = x.op
        if op == 'not': r = not v[0]
        elif op == 'and': r = all(v)
        elif op == 'or': r = any(v)
        elif op == 'eq': r = v[0] == v[1]
        elif op == 'bvadd': r = (v[0] + v[1]) & MASK
        elif op == 'bvsub': r = (v[0] - v[1]) & MASK
        elif op == 'bvult': r = v[0] < v[1]
        else: raise ValueError(op)
        cache[x.id] = r; stack.pop()
    return cache[e.id]
