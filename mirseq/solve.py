# Solver back end: emits the DAG as SMT-LIB2 and asks z3 (text interface, one process, push/pop per query).
import subprocess, time, re, os, tempfile
from .expr import *

class Solver(object):
    def __init__(s, z3bin='z3-new', timeout_s=120, dump=None):
        s.z3 = z3bin; s.timeout = timeout_s
        s.em = Emitter(); s.prelude = ['(set-option :produce-models true)', '(set-logic ALL)']
        s.asserted = []
        s.dump = dump
        s.total_time = 0.0; s.nqueries = 0
        s.log = []
    def add(s, e):
        s.em.emit(e); s.prelude += s.em.take(); s.prelude.append('(assert %s)' % smt_name(e))
    def check(s, name, e, want_model_vars=None):
        """returns ('sat', model dict) | ('unsat', None) | ('unknown', reason)"""
        if e is FALSE:
            s.log.append((name, 'unsat', 0.0, 'trivial')); s.nqueries += 1
            return 'unsat', None
        s.em.emit(e); s.prelude += s.em.take()
        lines = list(s.prelude)
        lines.append('(push 1)'); lines.append('(assert %s)' % smt_name(e)); lines.append('(check-sat)')
        names = sorted(s.em.vars) if want_model_vars is None else want_model_vars
        if names:
            # get-value in chunks (only answered when sat; an error line after unsat is expected and ignored)
            for i in range(0, len(names), 200):
                lines.append('(get-value (%s))' % ' '.join('|%s|' % n for n in names[i:i + 200]))
        lines.append('(pop 1)')
        text = '\n'.join(lines) + '\n'
        if s.dump:
            open(os.path.join(s.dump, re.sub(r'[^\w.-]', '_', name) + '.smt2'), 'w').write(text)
        t0 = time.time()
        try:
            p = subprocess.run([s.z3, '-in', '-T:%d' % s.timeout], input=text, capture_output=True, text=True, timeout=s.timeout + 30)
            out = p.stdout
        except subprocess.TimeoutExpired:
            out = 'timeout'
        dt = time.time() - t0; s.total_time += dt; s.nqueries += 1
        first = out.strip().split('\n')[0].strip() if out.strip() else 'empty'
        if first == 'sat':
            model = {}
            for mm in re.finditer(r'\(\|([^|]*)\|\s+(true|false|#b[01]+|#x[0-9a-fA-F]+)\)', out):
                v = mm.group(2)
                model[mm.group(1)] = (v == 'true') if v in ('true', 'false') else int(v[2:], 2 if v[1] == 'b' else 16)
            s.log.append((name, 'sat', dt, '')); return 'sat', model
        if first == 'unsat':
            errs = [l for l in out.split('\n') if l.startswith('(error') and 'model is not available' not in l]
            if errs:
                s.log.append((name, 'unknown', dt, errs[0])); return 'unknown', errs[0]
            s.log.append((name, 'unsat', dt, '')); return 'unsat', None
        s.log.append((name, 'unknown', dt, first)); return 'unknown', first
