# Dynamically shaped symbolic values for the MIR interpreter, and the guarded merge.
from .expr import *

class Cell(object):
    __slots__ = ('val', 'name', 'id')
    n = 0
    def __init__(s, val=None, name=''):
        s.val = val; s.name = name; s.id = Cell.n; Cell.n += 1
    def __repr__(s): return 'Cell(%s#%d)' % (s.name, s.id)

class St(object):
    """struct / tuple / closure environment / modelled std object; f: key -> value"""
    __slots__ = ('ty', 'f')
    def __init__(s, ty, f): s.ty = ty; s.f = f
    def __repr__(s): return 'St<%s>%r' % (s.ty, s.f)

class En(object):
    """enum: discriminant expression + payload struct per variant index"""
    __slots__ = ('ty', 'disc', 'vars')
    def __init__(s, ty, disc, vars=None): s.ty = ty; s.disc = disc; s.vars = vars or {}
    def __repr__(s): return 'En<%s>(%r,%r)' % (s.ty, s.disc, s.vars)

class Ref(object):
    """pointer / reference: guarded list of (guard, cell, path) targets"""
    __slots__ = ('tg',)
    def __init__(s, tg): s.tg = tg
    @staticmethod
    def to(cell, path=()): return Ref([(TRUE, cell, tuple(path))])
    def proj(s, elem): return Ref([(g, c, p + (elem,)) for g, c, p in s.tg])
    def __repr__(s): return 'Ref(%s)' % ', '.join('%s:%s%s' % (show(g, 1), c.name, list(p)) for g, c, p in s.tg)

class Opaque(object):
    """value whose content is never inspected (string constants, fn items, ZST markers)"""
    __slots__ = ('tag',)
    def __init__(s, tag): s.tag = tag
    def __repr__(s): return 'Opaque(%s)' % (s.tag,)

class Nat(object):
    """scenario-side native value (closure / future / stream) interpreted by scenario natives"""
    __slots__ = ('kind', 'p')
    def __init__(s, kind, **p): s.kind = kind; s.p = p
    def __repr__(s): return 'Nat(%s,%r)' % (s.kind, s.p)

class Mix(object):
    """shape-mismatched merge: guarded alternatives (rare: only where no Ref indirection exists)"""
    __slots__ = ('alts',)
    def __init__(s, alts): s.alts = alts
    def __repr__(s): return 'Mix(%r)' % (s.alts,)

class _Poison(object):
    def __repr__(s): return 'POISON'
POISON = _Poison()
UNIT = St('()', {})

def is_scalar(v): return isinstance(v, E)

def norm_refs(tg):
    """merge identical targets, drop false ones"""
    out = {}; order = []
    for g, c, p in tg:
        if g is FALSE: continue
        k = (c.id, p)
        if k in out: out[k] = (Or(out[k][0], g), c, p)
        else: out[k] = (g, c, p); order.append(k)
    return [out[k] for k in order]

def merge(g, a, b):
    """value `a` where g holds, else `b`"""
    if a is b or b is None or b is POISON: return a
    if a is None or a is POISON: return b
    if g is TRUE: return a
    if g is FALSE: return b
    if isinstance(a, E) and isinstance(b, E):
        if a.sort != b.sort:
            return a       # ill-sorted junk can only meet under an infeasible guard
        return Ite(g, a, b)
    ta = type(a)
    if ta is type(b):
        if ta is St:
            if a.ty == b.ty or a.ty is None or b.ty is None:
                fa, fb = a.f, b.f
                ty = a.ty if a.ty is not None else b.ty
                if fa.keys() == fb.keys():
                    return St(ty, {k: merge(g, fa[k], fb[k]) for k in fa})
                ks = list(fa.keys()) + [k for k in fb if k not in fa]
                return St(ty, {k: merge(g, fa.get(k), fb.get(k)) for k in ks})
            return Mix([(g, a), (Not(g), b)])
        elif ta is En:
            if a.ty is not None and b.ty is not None and a.ty != b.ty: return Mix([(g, a), (Not(g), b)])
            va, vb = a.vars, b.vars
            vs = {}
            for k in va:
                vs[k] = merge(g, va[k], vb.get(k))
            for k in vb:
                if k not in va: vs[k] = vb[k]
            if a.ty is not None and b.ty is not None and a.ty != b.ty: return Mix([(g, a), (Not(g), b)])
            return En(a.ty or b.ty, Ite(g, a.disc, b.disc), vs)
        elif ta is Ref:
            if len(a.tg) == 1 and len(b.tg) == 1 and a.tg[0][1] is b.tg[0][1] and a.tg[0][2] == b.tg[0][2] and a.tg[0][0] is TRUE and b.tg[0][0] is TRUE:
                return a
            ng = Not(g)
            return Ref(norm_refs([(And(g, x), c, p) for x, c, p in a.tg] + [(And(ng, x), c, p) for x, c, p in b.tg]))
        elif ta is Opaque:
            return a
        elif ta is Nat:
            if a.kind == b.kind and a.p == b.p: return a
        elif ta is Mix:
            ng = Not(g)
            return Mix([(And(g, x), v) for x, v in a.alts] + [(And(ng, x), v) for x, v in b.alts])
    if ta is Mix:
        return Mix([(And(g, x), v) for x, v in a.alts] + [(Not(g), b)])
    if type(b) is Mix:
        return Mix([(g, a)] + [(And(Not(g), x), v) for x, v in b.alts])
    return Mix([(g, a), (Not(g), b)])

def restrict_val(v, g):
    """cheap guard-relative simplification of a value about to be used under guard g"""
    if isinstance(v, E): return restrict(v, g)
    if isinstance(v, Ref) and len(v.tg) > 1:
        out = []
        for x, c, p in v.tg:
            r = implied(g, x)
            if r is True: return Ref([(TRUE, c, p)])
            if r is False: continue
            out.append((x, c, p))
        if len(out) != len(v.tg): return Ref(out)
    if isinstance(v, Mix):
        out = []
        for x, a in v.alts:
            r = implied(g, x)
            if r is True: return a
            if r is False: continue
            out.append((x, a))
        if len(out) == 1: return out[0][1]
        return Mix(out)
    return v
