# REPLAY: turn a solver schedule into a run of the real library (built with --cfg desync_verif, primitives from
# /verif/shim/vsched.rs following the schedule) and evaluate the same oracle natively.  A violation is only reported
# when it reproduces here.
import os, sys, json, subprocess, tempfile, shutil, re, time

VERIF = os.path.dirname(os.path.dirname(os.path.abspath(__file__)))
REPO = os.environ.get('VERIF_REPO', '/repo')

def gen_harness(spec, schedule):
    sc = spec['scen']
    nq = sc.get('queues', 1)
    L = []
    A = L.append
    A('''#![cfg(desync_verif)]
#![allow(unused, deprecated)]
extern crate desync;
extern crate futures;
use desync::vsched;
use desync::scheduler::*;
use std::sync::Arc;
use std::sync::atomic::{AtomicUsize, AtomicBool, Ordering::SeqCst};
const N: usize = 32;
static OCC: [AtomicUsize; N] = [const { AtomicUsize::new(0) }; N];
static NRUN: [AtomicUsize; N] = [const { AtomicUsize::new(0) }; N];
static INV: [AtomicUsize; N] = [const { AtomicUsize::new(usize::MAX) }; N];
static RET: [AtomicUsize; N] = [const { AtomicUsize::new(usize::MAX) }; N];
static START: [AtomicUsize; N] = [const { AtomicUsize::new(usize::MAX) }; N];
static END: [AtomicUsize; N] = [const { AtomicUsize::new(usize::MAX) }; N];
static RES: [AtomicUsize; N] = [const { AtomicUsize::new(usize::MAX) }; N];
static GATE: [AtomicBool; N] = [const { AtomicBool::new(false) }; N];
static OVERLAP: AtomicUsize = AtomicUsize::new(0);
static TWICE: AtomicUsize = AtomicUsize::new(0);
static CLOCK: AtomicUsize = AtomicUsize::new(0);
fn now() -> usize { CLOCK.fetch_add(1, SeqCst) }
fn enter(obj: usize, op: usize) { if OCC[obj].fetch_add(1, SeqCst) > 0 { OVERLAP.fetch_add(1, SeqCst); } if NRUN[op].fetch_add(1, SeqCst) > 0 { TWICE.fetch_add(1, SeqCst); } START[op].store(now(), SeqCst); }
fn exit_(obj: usize, op: usize) { OCC[obj].fetch_sub(1, SeqCst); END[op].store(now(), SeqCst); }
fn yield_() { vsched::harness_event("__yield", |_| true); }
fn gate_wait(k: usize) { vsched::harness_event("__gate_wait", |_| GATE[k].load(SeqCst)); }
fn gate_open(k: usize) { vsched::harness_event("__gate_open", |_| true); GATE[k].store(true, SeqCst); }
static GATE_WAKER: [std::sync::Mutex<Option<std::task::Waker>>; N] = [const { std::sync::Mutex::new(None) }; N];
static WOKEN: [AtomicBool; N] = [const { AtomicBool::new(false) }; N];
static FRET: [AtomicUsize; N] = [const { AtomicUsize::new(usize::MAX) }; N];
static FRES: [AtomicUsize; N] = [const { AtomicUsize::new(usize::MAX) }; N];
static NREADY: [AtomicUsize; N] = [const { AtomicUsize::new(0) }; N];
static FDROPPED: [AtomicUsize; N] = [const { AtomicUsize::new(usize::MAX) }; N];
static RESUMED: [AtomicUsize; N] = [const { AtomicUsize::new(usize::MAX) }; N];
static CANCELLED: [AtomicBool; N] = [const { AtomicBool::new(false) }; N];
struct GateFut { gate: usize, op: usize, obj: usize, tok: usize, done: bool }
impl std::future::Future for GateFut {
    type Output = usize;
    fn poll(mut self: std::pin::Pin<&mut Self>, cx: &mut std::task::Context<'_>) -> std::task::Poll<usize> {
        if self.gate == 9996 && !YIELDED[self.op].load(SeqCst) { cx.waker().wake_by_ref(); vsched::harness_event("__gate_poll_yield", |_| true); YIELDED[self.op].store(true, SeqCst); return std::task::Poll::Pending; }
        if self.gate == 9998 { cx.waker().wake_by_ref(); }
        if self.gate == 9997 || self.gate == 9998 { panic!("scenario future panics"); }
        vsched::harness_event("__gate_poll", |_| true);
        if self.gate == 9999 || self.gate == 9996 || GATE[self.gate].load(SeqCst) {
            if OCC[self.obj].load(SeqCst) > 0 { OCC[self.obj].fetch_sub(1, SeqCst); }
            END[self.op].store(now(), SeqCst); self.done = true;
            std::task::Poll::Ready(self.tok)
        } else {
            *GATE_WAKER[self.gate].lock().unwrap() = Some(cx.waker().clone());
            if REWAKE[self.gate].load(SeqCst) { *GATE_KEPT[self.gate].lock().unwrap() = Some(cx.waker().clone()); }
            std::task::Poll::Pending
        }
    }
}
impl Drop for GateFut { fn drop(&mut self) { vsched::harness_event("__gatefut_drop", |_| true); if !self.done { if OCC[self.obj].load(SeqCst) > 0 { OCC[self.obj].fetch_sub(1, SeqCst); } CANCELLED[self.op].store(true, SeqCst); END[self.op].store(now(), SeqCst); } } }
static NDROP: [AtomicUsize; N] = [const { AtomicUsize::new(0) }; N];
static ALIVE: [AtomicBool; N] = [const { AtomicBool::new(true) }; N];
static UAF: AtomicUsize = AtomicUsize::new(0);
static DROPBEGIN: [AtomicUsize; N] = [const { AtomicUsize::new(usize::MAX) }; N];
static DROPEND: [AtomicUsize; N] = [const { AtomicUsize::new(usize::MAX) }; N];
static FREEDAT: [AtomicUsize; N] = [const { AtomicUsize::new(usize::MAX) }; N];
static SLOTFULL: [AtomicBool; N] = [const { AtomicBool::new(false) }; N];
struct Canary { id: usize }
impl Drop for Canary { fn drop(&mut self) { NDROP[self.id].fetch_add(1, SeqCst); ALIVE[self.id].store(false, SeqCst); FREEDAT[self.id].store(now(), SeqCst); } }
fn touch(c: &mut Canary, cid: usize) { if !ALIVE[cid].load(SeqCst) { UAF.fetch_add(1, SeqCst); } let _ = c; }
struct DGateFut { inner: GateFut, cid: usize }
impl std::future::Future for DGateFut { type Output = usize; fn poll(mut self: std::pin::Pin<&mut Self>, cx: &mut std::task::Context<'_>) -> std::task::Poll<usize> { let cid = self.cid; let r = std::pin::Pin::new(&mut self.inner).poll(cx); if r.is_ready() && !ALIVE[cid].load(SeqCst) { UAF.fetch_add(1, SeqCst); } r } }
struct TaskWake(usize);
impl futures::task::ArcWake for TaskWake { fn wake_by_ref(a: &Arc<Self>) { vsched::harness_event("__task_wake", |_| true); WOKEN[a.0].store(true, SeqCst); } }
fn task_wait(k: usize) { vsched::harness_event("__task_wait", |_| WOKEN[k].load(SeqCst)); WOKEN[k].store(false, SeqCst); }
static YIELDED: [AtomicBool; N] = [const { AtomicBool::new(false) }; N];
static GATE_AT: [AtomicUsize; N] = [const { AtomicUsize::new(usize::MAX) }; N];
static GATE_WOKE: [AtomicBool; N] = [const { AtomicBool::new(false) }; N];
static GATE_KEPT: [std::sync::Mutex<Option<std::task::Waker>>; N] = [const { std::sync::Mutex::new(None) }; N];
static REWAKE: [AtomicBool; N] = [const { AtomicBool::new(false) }; N];
fn rewake(k: usize) { vsched::harness_event("__gate_rewake", |_| true); let w = GATE_KEPT[k].lock().unwrap().take(); if let Some(w) = w { w.wake(); } }
fn open_gate_wake(k: usize) { vsched::harness_event("__gate_open", |_| true); GATE[k].store(true, SeqCst); GATE_AT[k].store(now(), SeqCst); let w = GATE_WAKER[k].lock().unwrap().take(); if let Some(w) = w { GATE_WOKE[k].store(true, SeqCst); w.wake(); } }
static SGOT: [AtomicUsize; N] = [const { AtomicUsize::new(usize::MAX) }; N];
static SVAL: [AtomicUsize; N] = [const { AtomicUsize::new(usize::MAX) }; N];
static SDROPPED: [AtomicUsize; N] = [const { AtomicUsize::new(usize::MAX) }; N];
static FLAGDROP: [AtomicUsize; N] = [const { AtomicUsize::new(0) }; N];
static STREAM_ENDED: [AtomicBool; N] = [const { AtomicBool::new(false) }; N];
static PIPE_STARTED: [AtomicUsize; N] = [const { AtomicUsize::new(usize::MAX) }; N];
struct DropFlag(usize);
static FLAG_OPENS: [AtomicUsize; N] = [const { AtomicUsize::new(usize::MAX) }; N];
impl Drop for DropFlag { fn drop(&mut self) { FLAGDROP[self.0].fetch_add(1, SeqCst); let g = FLAG_OPENS[self.0].load(SeqCst); if g != usize::MAX { GATE[g].store(true, SeqCst); GATE_AT[g].store(now(), SeqCst); let w = GATE_WAKER[g].lock().unwrap().take(); if let Some(w) = w { GATE_WOKE[g].store(true, SeqCst); w.wake(); } } } }
struct GateStream { n: usize, ends: bool, idx: usize, pipe: usize, flag: DropFlag, gates: Vec<usize> }
impl futures::Stream for GateStream {
    type Item = usize;
    fn poll_next(mut self: std::pin::Pin<&mut Self>, cx: &mut std::task::Context<'_>) -> std::task::Poll<Option<usize>> {
        vsched::harness_event("__stream_poll", |_| true);
        if self.idx < self.n {
            let g = self.gates[self.idx];
            if g == 9999 || GATE[g].load(SeqCst) { let k = self.idx; self.idx += 1; std::task::Poll::Ready(Some(k)) }
            else { *GATE_WAKER[g].lock().unwrap() = Some(cx.waker().clone()); std::task::Poll::Pending }
        } else if self.ends { STREAM_ENDED[self.pipe].store(true, SeqCst); std::task::Poll::Ready(None) }
        else { std::task::Poll::Pending }
    }
}
fn fut_done(op: usize, v: usize) { FRES[op].store(v, SeqCst); FRET[op].store(now(), SeqCst); NREADY[op].fetch_add(1, SeqCst); }
static DESPAWN_LIVE: AtomicUsize = AtomicUsize::new(usize::MAX);
static DESPAWN_MAX: AtomicUsize = AtomicUsize::new(usize::MAX);
fn op_inv(op: usize) { INV[op].store(now(), SeqCst); }
fn op_done(op: usize, v: usize) { RES[op].store(v, SeqCst); RET[op].store(now(), SeqCst); }
''')
    A('#[test]\nfn replay() {')
    sched = ', '.join('("%s".to_string(), "%s".to_string())' % (s['thread'], s['op']) for s in schedule['sites'])
    A('    vsched::configure(%d, vec![%s]);' % (sc.get('pool_max', 0), sched))
    for q in range(nq): A('    let q%d = queue();' % q)
    for k_ in sorted(set(o[1] for th_ in sc['threads'] for o in th_['ops'] if o[0] == 'rewake')): A('    REWAKE[%d].store(true, SeqCst);' % k_)
    pid_ = 0
    for th_ in sc['threads']:
        for o in th_['ops']:
            if o[0] in ('pipe_in', 'pipe'):
                if o[0] == 'pipe_in' and len(o) > 2 and o[2].get('drop_opens') is not None: A('    FLAG_OPENS[%d].store(%d, SeqCst);' % (2 * pid_ + 1, o[2]['drop_opens']))
                pid_ += 1
    callers = [t['name'] for t in sc['threads'] if not t.get('final')]
    opid = 0
    handles = []
    tasks = {}; canaries = {}; gives = []; npipes = [0]; psvars = {}
    nslots = max([o[2] for th_ in sc['threads'] for o in th_['ops'] if o[0] == 'd_give'] + [-1]) + 1
    for k_ in range(nslots): L.insert(1, 'static SLOT_%d: std::sync::Mutex<Option<desync::Desync<Canary>>> = std::sync::Mutex::new(None);' % k_)
    for th in sc['threads']:
        body = []; futvars = {}
        if th.get('final') or th.get('after'):
            cond = ' && '.join('vsched::thread_finished(rt, "%s")' % c for c in (th.get('after') or callers)) or 'true'
            body.append('vsched::harness_event("__await_callers", |rt| %s);' % cond)
        ntask = [0]
        for op in th['ops']:
            kind = op[0]
            if kind in ('sync', 'desync', 'try_sync'):
                q = op[1]; b = op[2] if len(op) > 2 else {}
                acts = b.get('acts', ['enter', 'yield', 'exit'])
                code = []; outer = opid; opid += 1; pre = []
                for a in acts:
                    if a == 'enter': code.append('enter(%d, %d);' % (q, outer))
                    elif a == 'exit': code.append('exit_(%d, %d);' % (q, outer))
                    elif a == 'yield': code.append('yield_();')
                    elif a == 'panic': code.append('if true { panic!("scenario job panics"); }')
                    elif a[0] == 'gate': code.append('gate_wait(%d);' % a[1])
                    elif a[0] in ('desync', 'sync'):
                        # an operation scheduled from inside the job (numbered right after the enclosing operation)
                        nop = opid; opid += 1
                        pre.append('let n%d_q%d = Arc::clone(&q%d);' % (nop, a[1], a[1]))
                        inner = 'enter(%d, %d); yield_(); exit_(%d, %d);' % (a[1], nop, a[1], nop)
                        if a[0] == 'desync': code.append('op_inv(%d); desync(&n%d_q%d, move || { %s }); op_done(%d, 0);' % (nop, nop, a[1], inner, nop))
                        else: code.append('op_inv(%d); { let r = sync(&n%d_q%d, move || { %s %d_usize }); op_done(%d, r); }' % (nop, nop, a[1], inner, 40 + nop, nop))
                tok = 40 + outer
                body.append('op_inv(%d);' % outer)
                pre = ' '.join(pre)
                if kind == 'sync': body.append('{ %s let r = sync(&q%d, move || { %s %d_usize }); op_done(%d, r); }' % (pre, q, ' '.join(code), tok, outer))
                elif kind == 'desync': body.append('{ %s desync(&q%d, move || { %s }); op_done(%d, 0); }' % (pre, q, ' '.join(code), outer))
                else: body.append('{ %s let r = try_sync(&q%d, move || { %s %d_usize }); op_done(%d, match r { Ok(v) => v, Err(_) => 9999 }); }' % (pre, q, ' '.join(code), tok, outer))
            elif kind == 'open_gate': body.append('open_gate_wake(%d);' % op[1])
            elif kind == 'rewake': body.append('rewake(%d);' % op[1])
            elif kind == 'wait_gate': body.append('gate_wait(%d);' % op[1])
            elif kind in ('future_desync', 'future_sync'):
                q = op[1]; b = op[2] if len(op) > 2 else {}
                fk = b.get('fut', 'ready'); gate = fk[1] if isinstance(fk, (list, tuple)) else {'panic': 9997, 'wake_panic': 9998, 'yield': 9996}.get(fk, 9999)
                var = b.get('as', 'f%d' % opid); tok = 40 + opid
                futvars[var] = (opid, kind)
                body.append('op_inv(%d);' % opid)
                mk = 'move || { enter(%d, %d); GateFut { gate: %d, op: %d, obj: %d, tok: %d, done: false } }' % (q, opid, gate, opid, q, tok)
                if kind == 'future_desync': body.append('let mut %s = Some(future_desync(&q%d, %s));' % (var, q, mk))
                else: body.append('let mut %s = Some(Box::pin(future_sync(&q%d, %s)));' % (var, q, mk))
                body.append('RET[%d].store(now(), SeqCst);' % opid)
                opid += 1
            elif kind == 'suspend':
                q = op[1]; b = op[2] if len(op) > 2 else {}
                var = b.get('as', 'f%d' % opid)
                futvars[var] = (opid, 'suspend')
                body.append('op_inv(%d);' % opid)
                body.append('let mut %s = Some(Box::pin(scheduler().suspend(&q%d)));' % (var, q))
                body.append('RET[%d].store(now(), SeqCst);' % opid)
                opid += 1
            elif kind in ('block_on', 'poll'):
                var = op[1]; fop, fkind = futvars[var]
                k = ntask[0]; ntask[0] += 1
                tk = '%s_%d' % (th['name'], k)
                tid = tasks.setdefault(tk, len(tasks))
                body.append('let waker_%d = futures::task::waker(Arc::new(TaskWake(%d))); let mut cx_%d = std::task::Context::from_waker(&waker_%d);' % (tid, tid, tid, tid))
                conv = 'match v { Ok(v) => v, Err(_) => 7777 }' if fkind != 'suspend' else 'match v { Ok(r) => { resumers_%s = Some(r); 1 }, Err(_) => 7777 }' % var
                if fkind == 'suspend': body.append('let mut resumers_%s = None;' % var)
                if kind == 'block_on':
                    body.append('loop { let r = std::future::Future::poll(std::pin::Pin::new(%s.as_mut().unwrap()), &mut cx_%d); match r { std::task::Poll::Ready(v) => { fut_done(%d, %s); break; } std::task::Poll::Pending => { task_wait(%d); } } }' % (var, tid, fop, conv, tid))
                else:
                    body.append('{ let r = std::future::Future::poll(std::pin::Pin::new(%s.as_mut().unwrap()), &mut cx_%d); if let std::task::Poll::Ready(v) = r { fut_done(%d, %s); } }' % (var, tid, fop, conv))
            elif kind in ('drop_fut', 'detach'):
                var = op[1]; fop, fkind = futvars[var]
                body.append('drop(%s.take()); FDROPPED[%d].store(now(), SeqCst);' % (var, fop))
            elif kind == 'sync_fut':
                var = op[1]; fop, fkind = futvars[var]
                body.append('{ let v = %s.take().unwrap().sync(); fut_done(%d, match v { Ok(v) => v, Err(_) => 7777 }); }' % (var, fop))
            elif kind == 'resume':
                var = op[1]; fop, fkind = futvars[var]
                if op[2] == 'resume': body.append('RESUMED[%d].store(now(), SeqCst); resumers_%s.take().unwrap().resume();' % (fop, var))
                else: body.append('RESUMED[%d].store(now(), SeqCst); drop(resumers_%s.take());' % (fop, var))
            elif kind == 'p_new':
                cid = canaries.setdefault(op[1], len(canaries))
                body.append('let mut dv_%s = Some(Arc::new(desync::Desync::new(Canary { id: %d })));' % (op[1], cid))
            elif kind == 'p_drop':
                cid = canaries[op[1]]
                body.append('DROPBEGIN[%d].store(now(), SeqCst); drop(dv_%s.take()); DROPEND[%d].store(now(), SeqCst);' % (cid, op[1], cid))
            elif kind == 'pipe_in':
                cid = canaries[op[1]]; obj = 10 + cid; b = op[2] if len(op) > 2 else {}
                gates = [9999 if g == 99 else g for g in b.get('gates', [99])]; n = len(gates); ends = bool(b.get('ends', True))
                pk = b.get('proc', 'ready'); pgate = pk[1] if isinstance(pk, (list, tuple)) else 9999
                pid = npipes[0]; npipes[0] += 1; base = opid
                body.append('{ use futures::FutureExt; let st = GateStream { n: %d, ends: %s, idx: 0, pipe: %d, flag: DropFlag(%d), gates: vec![%s] }; let fl = DropFlag(%d); '
                            'desync::pipe_in(Arc::clone(dv_%s.as_ref().unwrap()), st, move |c: &mut Canary, item: usize| { let _ = &fl; let op = %d + item; enter(%d, op); touch(c, %d); DGateFut { inner: GateFut { gate: %d, op: op, obj: %d, tok: 40 + op, done: false }, cid: %d }.map(|_| ()).boxed() }); PIPE_STARTED[%d].store(now(), SeqCst); }'
                            % (n, 'true' if ends else 'false', pid, 2 * pid, ', '.join(map(str, gates)), 2 * pid + 1, op[1], base, obj, cid, pgate, obj, cid, pid))
                opid += n
            elif kind == 'pipe':
                cid = canaries[op[1]]; obj = 10 + cid; b = op[2] if len(op) > 2 else {}
                gates = [9999 if g == 99 else g for g in b.get('gates', [99])]; n = len(gates); ends = bool(b.get('ends', True))
                pk = b.get('proc', 'ready'); pgate = pk[1] if isinstance(pk, (list, tuple)) else 9999
                pid = npipes[0]; npipes[0] += 1; base = opid; psn = b.get('as', 'ps'); psvars[psn] = pid
                body.append('let mut ps_%s = { use futures::FutureExt; let st = GateStream { n: %d, ends: %s, idx: 0, pipe: %d, flag: DropFlag(%d), gates: vec![%s] }; let fl = DropFlag(%d); '
                            'Some(desync::pipe(Arc::clone(dv_%s.as_ref().unwrap()), st, move |c: &mut Canary, item: usize| { let _ = &fl; let op = %d + item; enter(%d, op); touch(c, %d); DGateFut { inner: GateFut { gate: %d, op: op, obj: %d, tok: 40 + op, done: false }, cid: %d }.boxed() })) };'
                            % (psn, n, 'true' if ends else 'false', pid, 2 * pid, ', '.join(map(str, gates)), 2 * pid + 1, op[1], base, obj, cid, pgate, obj, cid))
                if b.get('depth'): body.append('ps_%s.as_mut().unwrap().set_backpressure_depth(%d);' % (psn, b['depth']))
                body.append('PIPE_STARTED[%d].store(now(), SeqCst);' % pid)
                opid += n
            elif kind == 's_next':
                k = ntask[0]; ntask[0] += 1
                tk = '%s_%d' % (th['name'], k)
                tid = tasks.setdefault(tk, len(tasks))
                body.append('{ let waker = futures::task::waker(Arc::new(TaskWake(%d))); let mut cx = std::task::Context::from_waker(&waker); '
                            'loop { match futures::Stream::poll_next(std::pin::Pin::new(ps_%s.as_mut().unwrap()), &mut cx) { std::task::Poll::Ready(v) => { SGOT[%d].store(if v.is_some() { 1 } else { 0 }, SeqCst); SVAL[%d].store(v.unwrap_or(usize::MAX), SeqCst); RET[%d].store(now(), SeqCst); break; } std::task::Poll::Pending => { task_wait(%d); } } } }'
                            % (tid, op[1], opid, opid, opid, tid))
                opid += 1
            elif kind == 's_drop':
                body.append('drop(ps_%s.take()); SDROPPED[%d].store(now(), SeqCst);' % (op[1], psvars[op[1]]))
            elif kind == 'd_new':
                cid = canaries.setdefault(op[1], len(canaries))
                body.append('let mut dv_%s = Some(desync::Desync::new(Canary { id: %d }));' % (op[1], cid))
            elif kind in ('d_desync', 'd_sync', 'd_try_sync', 'd_future_desync'):
                cid = canaries[op[1]]; obj = 10 + cid; b = op[2] if len(op) > 2 else {}
                base = kind[2:]; tok = 40 + opid
                code = 'enter(%d, %d); touch(c, %d); yield_(); touch(c, %d); exit_(%d, %d);' % (obj, opid, cid, cid, obj, opid)
                body.append('op_inv(%d);' % opid)
                dref = 'dv_%s.as_ref().unwrap()' % op[1]
                if base == 'desync': body.append('{ %s.desync(move |c| { %s }); op_done(%d, 0); }' % (dref, code, opid))
                elif base == 'sync': body.append('{ let r = %s.sync(move |c| { %s %d_usize }); op_done(%d, r); }' % (dref, code, tok, opid))
                elif base == 'try_sync': body.append('{ let r = %s.try_sync(move |c| { %s %d_usize }); op_done(%d, match r { Ok(v) => v, Err(_) => 9999 }); }' % (dref, code, tok, opid))
                else:
                    fk = b.get('fut', 'ready'); gate = fk[1] if isinstance(fk, (list, tuple)) else 9999
                    var = b.get('as', 'f%d' % opid); futvars[var] = (opid, 'future_desync')
                    body.append('let mut %s = Some(%s.future_desync(move |c| { use futures::FutureExt; enter(%d, %d); touch(c, %d); DGateFut { inner: GateFut { gate: %d, op: %d, obj: %d, tok: %d, done: false }, cid: %d }.boxed() }));' % (var, dref, obj, opid, cid, gate, opid, obj, tok, cid))
                    body.append('RET[%d].store(now(), SeqCst);' % opid)
                opid += 1
            elif kind == 'd_drop':
                cid = canaries[op[1]]
                body.append('DROPBEGIN[%d].store(now(), SeqCst); drop(dv_%s.take()); DROPEND[%d].store(now(), SeqCst);' % (cid, op[1], cid))
            elif kind == 'set_max': body.append('scheduler().set_max_threads(%d);' % op[1])
            elif kind == 'despawn': body.append('scheduler().despawn_threads_if_overloaded(); DESPAWN_LIVE.store(vsched::live_pool_threads(), SeqCst); DESPAWN_MAX.store(%d, SeqCst);' % ([o[1] for o in th['ops'][:th['ops'].index(op)] if o[0] == 'set_max'] or [sc.get('pool_max', 0)])[-1])
            elif kind == 'd_give':
                gives.append((op[2], op[1]))
                body.append('vsched::harness_event("__give", |_| true); *SLOT_%d.lock().unwrap() = dv_%s.take(); SLOTFULL[%d].store(true, SeqCst);' % (op[2], op[1], op[2]))
            elif kind == 'd_take':
                canaries.setdefault(op[2], [c for s_, c in [(g[0], canaries.get(g[1])) for g in gives] if s_ == op[1]][0] if any(g[0] == op[1] for g in gives) else len(canaries))
                body.append('vsched::harness_event("__take", |_| SLOTFULL[%d].load(SeqCst)); let mut dv_%s = SLOT_%d.lock().unwrap().take(); SLOTFULL[%d].store(false, SeqCst);' % (op[1], op[2], op[1], op[1]))
            else: raise ValueError('replay: op ' + kind)
        # a reference the scenario never drops is kept for the whole run (the model's thread body returns without dropping its locals; the
        # implicit drop at the end of the harness closure destroyed the Desync behind the model's back: witness divergence on c11_*_su)
        for op in th['ops']:
            if op[0] in ('p_new', 'd_new'): body.append('std::mem::forget(dv_%s);' % op[1])
            elif op[0] == 'd_take': body.append('std::mem::forget(dv_%s);' % op[2])
        clones = ' '.join('let q%d = Arc::clone(&q%d);' % (q, q) for q in range(nq))
        A('    let h_%s = { %s vsched::spawn_controlled("%s", move || { %s }) };' % (th['name'], clones, th['name'], ' '.join(body)))
        handles.append('h_' + th['name'])
    A('    let (verdict, log, threads) = vsched::run_to_completion(30000);')
    A('    println!("");')
    A('    for l in log.iter() { println!("STEP {}", l); }')
    A('    println!("VERDICT {}", verdict.clone().unwrap_or("DONE".to_string()));')
    A('    for (n, fin, pan) in threads.iter() { println!("THREAD {} finished={} panicked={}", n, fin, pan); }')
    A('    println!("GHOST overlap={} twice={}", OVERLAP.load(SeqCst), TWICE.load(SeqCst));')
    A('    println!("MEM uaf={}", UAF.load(SeqCst));')
    A('    println!("DESPAWN live={} max={}", DESPAWN_LIVE.load(SeqCst) as isize, DESPAWN_MAX.load(SeqCst) as isize);')
    A('    for i in 0..%d { println!("CANARY {} ndrop={} dropbegin={} dropend={} freedat={}", i, NDROP[i].load(SeqCst), DROPBEGIN[i].load(SeqCst) as isize, DROPEND[i].load(SeqCst) as isize, FREEDAT[i].load(SeqCst) as isize); }' % max(1, len(canaries)))
    A('    for i in 0..%d { println!("OP {} nrun={} inv={} ret={} start={} end={} res={} fret={} fres={} nready={} fdropped={} resumed={} cancelled={}", i, NRUN[i].load(SeqCst), INV[i].load(SeqCst) as isize, RET[i].load(SeqCst) as isize, START[i].load(SeqCst) as isize, END[i].load(SeqCst) as isize, RES[i].load(SeqCst) as isize, FRET[i].load(SeqCst) as isize, FRES[i].load(SeqCst) as isize, NREADY[i].load(SeqCst), FDROPPED[i].load(SeqCst) as isize, RESUMED[i].load(SeqCst) as isize, CANCELLED[i].load(SeqCst)); }' % opid)
    A('    for i in 0..8 { println!("FLAG {} ndrop={}", i, FLAGDROP[i].load(SeqCst)); }')
    A('    for i in 0..%d { println!("SNEXT {} got={} val={}", i, SGOT[i].load(SeqCst) as isize, SVAL[i].load(SeqCst) as isize); }' % opid)
    A('    for i in 0..4 { println!("SDROP {} at={}", i, SDROPPED[i].load(SeqCst) as isize); }')
    A('    for i in 0..8 { println!("GATE {} open={} at={} woke={}", i, GATE[i].load(SeqCst), GATE_AT[i].load(SeqCst) as isize, GATE_WOKE[i].load(SeqCst)); }')
    A('    for i in 0..4 { println!("PIPE {} ended={} started={}", i, STREAM_ENDED[i].load(SeqCst), PIPE_STARTED[i].load(SeqCst) as isize); }')
    for q in range(nq): A('    println!("QUEUE %d {}", std::panic::catch_unwind(std::panic::AssertUnwindSafe(|| format!("{:?}", q%d))).unwrap_or("POISONED".to_string()));' % (q, q))
    A('    std::process::exit(0);')
    A('}')
    return '\n'.join(L)

def run_replay(spec, schedule, keep=None):
    t0 = time.time()
    scratch = tempfile.mkdtemp(prefix='mirseq_replay_')
    try:
        src = os.path.join(scratch, 'src')
        subprocess.check_call(['rsync', '-a', '--exclude', 'target', '--exclude', '.git', REPO + '/', src + '/'])
        for f in os.listdir(os.path.join(src, 'tests')):
            p = os.path.join(src, 'tests', f)
            if os.path.isdir(p): shutil.rmtree(p)
            else: os.remove(p)
        open(os.path.join(src, 'tests', 'replay.rs'), 'w').write(gen_harness(spec, schedule))
        env = dict(os.environ, CARGO_NET_OFFLINE='true', RUSTFLAGS='--cfg desync_verif -C debug-assertions=off', DESYNC_VERIF_DIR=os.path.join(VERIF, 'shim'),
                   CARGO_TARGET_DIR=os.environ.get('VERIF_REPLAY_TARGET', os.path.join(VERIF, 'scratch', 'replay_target')))
        p = subprocess.run(['cargo', 'test', '--offline', '--test', 'replay', '--', '--nocapture', '--test-threads', '1'], cwd=src, env=env,
                           capture_output=True, text=True, timeout=600)
        out = p.stdout
        if 'VERDICT' not in out:
            try: open(os.path.join(VERIF, 'scratch', 'last_replay_error.txt'), 'w').write('rc=%s\n--- stderr\n%s\n--- stdout\n%s' % (p.returncode, p.stderr[-6000:], out[-6000:]))
            except Exception: pass
            return {'status': 'error', 'detail': (p.stderr[-1500:] + out[-500:]), 'wall_s': round(time.time() - t0, 1)}
        return parse_output(out, time.time() - t0)
    finally:
        shutil.rmtree(scratch, ignore_errors=True)

def parse_output(out, wall):
    r = {'steps': [], 'threads': {}, 'ops': {}, 'queues': {}, 'wall_s': round(wall, 1)}
    for line in out.split('\n'):
        if line.startswith('STEP '): r['steps'].append(line[5:])
        elif line.startswith('VERDICT '): r['verdict'] = line[8:]
        elif line.startswith('THREAD '):
            m = re.match(r'THREAD (\S+) finished=(\w+) panicked=(\w+)', line); r['threads'][m.group(1)] = {'finished': m.group(2) == 'true', 'panicked': m.group(3) == 'true'}
        elif line.startswith('GHOST '):
            m = re.match(r'GHOST overlap=(\d+) twice=(\d+)', line); r['overlap'] = int(m.group(1)); r['twice'] = int(m.group(2))
        elif line.startswith('OP '):
            m = re.match(r'OP (\d+) nrun=(\d+) inv=(-?\d+) ret=(-?\d+) start=(-?\d+) end=(-?\d+) res=(-?\d+) fret=(-?\d+) fres=(-?\d+) nready=(\d+) fdropped=(-?\d+) resumed=(-?\d+) cancelled=(\w+)', line)
            r['ops'][int(m.group(1))] = dict(nrun=int(m.group(2)), inv=int(m.group(3)), ret=int(m.group(4)), start=int(m.group(5)), end=int(m.group(6)), res=int(m.group(7)),
                                             fret=int(m.group(8)), fres=int(m.group(9)), nready=int(m.group(10)), fdropped=int(m.group(11)), resumed=int(m.group(12)), cancelled=m.group(13) == 'true')
        elif line.startswith('MEM '):
            r['uaf'] = int(re.match(r'MEM uaf=(\d+)', line).group(1))
        elif line.startswith('DESPAWN '):
            m = re.match(r'DESPAWN live=(-?\d+) max=(-?\d+)', line); r['despawn'] = dict(live=int(m.group(1)), max=int(m.group(2)))
        elif line.startswith('CANARY '):
            m = re.match(r'CANARY (\d+) ndrop=(\d+) dropbegin=(-?\d+) dropend=(-?\d+) freedat=(-?\d+)', line)
            r.setdefault('canaries', {})[int(m.group(1))] = dict(ndrop=int(m.group(2)), dropbegin=int(m.group(3)), dropend=int(m.group(4)), freedat=int(m.group(5)))
        elif line.startswith('SNEXT '):
            m = re.match(r'SNEXT (\d+) got=(-?\d+) val=(-?\d+)', line); r.setdefault('snext', {})[int(m.group(1))] = dict(got=int(m.group(2)), val=int(m.group(3)))
        elif line.startswith('SDROP '):
            m = re.match(r'SDROP (\d+) at=(-?\d+)', line); r.setdefault('sdrop', {})[int(m.group(1))] = int(m.group(2))
        elif line.startswith('FLAG '):
            m = re.match(r'FLAG (\d+) ndrop=(\d+)', line); r.setdefault('flags', {})[int(m.group(1))] = int(m.group(2))
        elif line.startswith('GATE '):
            m = re.match(r'GATE (\d+) open=(\w+) at=(-?\d+) woke=(\w+)', line); r.setdefault('gates', {})[int(m.group(1))] = dict(open=m.group(2) == 'true', at=int(m.group(3)), woke=m.group(4) == 'true')
        elif line.startswith('PIPE '):
            m = re.match(r'PIPE (\d+) ended=(\w+) started=(-?\d+)', line); r.setdefault('pipes', {})[int(m.group(1))] = dict(ended=m.group(2) == 'true', started=int(m.group(3)))
        elif line.startswith('QUEUE '):
            m = re.match(r'QUEUE (\d+) (.*)', line); r['queues'][int(m.group(1))] = m.group(2)
    return r

def judge(spec, viol, rr):
    """does the native run violate the same oracle?"""
    if rr.get('verdict', '').startswith('DIVERGED') or rr.get('verdict') in ('TIMEOUT', 'STEP-LIMIT'):
        return 'diverged', rr.get('verdict')
    sc = spec['scen']; oracle = viol['oracle']
    callers = [t['name'] for t in sc['threads']]
    unfinished = [n for n in callers if not rr['threads'].get(n, {}).get('finished')]
    quiet = rr.get('verdict', '').startswith('QUIET')
    ops = opinfo(sc)
    if oracle == 'deadlock':
        return ('reproduced', 'threads %s never finish: %s' % (unfinished, rr['verdict'])) if quiet and unfinished else ('not_reproduced', rr.get('verdict'))
    if oracle == 'overlap':
        return ('reproduced', 'overlap count %d' % rr['overlap']) if rr.get('overlap', 0) > 0 else ('not_reproduced', '')
    if oracle == 'ran_twice':
        return ('reproduced', '') if rr.get('twice', 0) > 0 else ('not_reproduced', '')
    if oracle == 'panic':
        pan = [n for n, t in rr['threads'].items() if t['panicked']]
        return ('reproduced', 'panicked: %s' % pan) if pan else ('not_reproduced', '')
    if oracle == 'panic_unexpected':
        allowed = set(sc.get('expect_panic', []))
        pan = [n for n, t in rr['threads'].items() if t['panicked'] and n not in allowed and not (n.startswith('P') and 'pool' in allowed)]
        return ('reproduced', 'panicked: %s' % pan) if pan else ('not_reproduced', '')
    if oracle == 'panic_contained':
        bad = []
        for k, o in ops.items():
            if not o.get('must_panic'): continue
            r = rr['ops'][k]
            if r['nrun'] > 0: bad.append('op%d on the panicked object ran' % k)
            if r['ret'] >= 0: bad.append('op%d on the panicked object returned normally' % k)
        sick = set(o['obj'] for o in ops.values() if o.get('panics'))
        if not unfinished:
            for k, o in ops.items():
                if o['obj'] in sick or o['kind'] not in ('desync', 'sync'): continue
                if rr['ops'][k]['nrun'] != 1: bad.append('op%d on a healthy object nrun=%d' % (k, rr['ops'][k]['nrun']))
            for q, s in rr['queues'].items():
                if q in sick:
                    if 'POISONED' not in s and 'State: Panicked' not in s: bad.append('panicked queue%d is %s' % (q, s))
                elif 'State: Idle, Pending: 0' not in s: bad.append('healthy queue%d %s' % (q, s))
        return ('reproduced', '; '.join(bad)) if bad else ('not_reproduced', '')
    if oracle in ('pipe_out', 'pipe_closed'):
        bad = []
        cids = {}
        for th in sc['threads']:
            for op in th['ops']:
                if op[0] in ('d_new', 'p_new'): cids.setdefault(op[1], len(cids))
        pipes = {}
        for k, o in ops.items():
            if o['kind'] == 'pipe_item' and o.get('out'): pipes.setdefault(o['pipe_base'], []).append(k)
        for pid, (base, ks) in enumerate(sorted(pipes.items())):
            o0 = ops[base]; n = o0['n']
            cons = [k for k, o in sorted(ops.items()) if o['kind'] == 's_next' and o['ps'] == o0['out']]
            if oracle == 'pipe_out':
                for j, k in enumerate(cons):
                    if rr['ops'][k]['ret'] < 0: continue
                    sn = rr.get('snext', {}).get(k, {})
                    if j < n:
                        if sn.get('got') != 1: bad.append('output %d missing (stream ended early)' % j)
                        elif sn.get('val') != 40 + base + j: bad.append('output %d has value %s, expected %d' % (j, sn.get('val'), 40 + base + j))
                    elif sn.get('got') != 0: bad.append('output %d beyond the %d inputs' % (j, n))
            else:
                can = rr.get('canaries', {}).get(cids[o0['var']], {})
                if not unfinished and rr.get('sdrop', {}).get(pid, -1) >= 0 and can.get('dropend', -1) >= 0:
                    if can.get('ndrop') != 1: bad.append('pipe still holds the Desync after its output stream was dropped (payload drops=%s)' % can.get('ndrop'))
                    for f_ in (2 * pid, 2 * pid + 1):
                        if rr.get('flags', {}).get(f_) != 1: bad.append('%s not released after the output stream was dropped (drops=%s)' % ('input stream' if f_ % 2 == 0 else 'closure', rr.get('flags', {}).get(f_)))
        return ('reproduced', '; '.join(bad)) if bad else ('not_reproduced', '')
    if oracle == 'pipe_in':
        bad = []
        dropped = {}
        cids = {}
        for th in sc['threads']:
            for op in th['ops']:
                if op[0] in ('d_new', 'p_new'): cids.setdefault(op[1], len(cids))
        hasdrop = set(op[1] for th in sc['threads'] for op in th['ops'] if op[0] == 'p_drop')
        pipes = {}
        for k, o in ops.items():
            if o['kind'] == 'pipe_item': pipes.setdefault(o['pipe_base'], []).append(k)
        for pid, (base, ks) in enumerate(sorted(pipes.items())):
            o0 = ops[base]
            for a in ks:
                for b_ in ks:
                    if a < b_ and rr['ops'][b_]['start'] >= 0 and not (0 <= rr['ops'][a]['end'] < rr['ops'][b_]['start']):
                        bad.append('item %d started before item %d finished' % (b_ - base, a - base))
            if unfinished: continue
            can = rr.get('canaries', {}).get(cids[o0['var']], {})
            gone = can.get('dropend', -1) >= 0
            gt = rr.get('gates', {})
            if not gone:
                allopen = True
                for j, kk in enumerate(ks):
                    g_ = o0['gates'][j]
                    allopen = allopen and (g_ == 99 or gt.get(g_, {}).get('open'))
                    if allopen and (rr['ops'][kk]['nrun'] != 1 or rr['ops'][kk]['end'] < 0): bad.append('item %d available but nrun=%d end=%d at quiescence' % (j, rr['ops'][kk]['nrun'], rr['ops'][kk]['end']))
                if allopen and o0['ends']:
                    for f_ in (2 * pid, 2 * pid + 1):
                        if rr.get('flags', {}).get(f_) != 1: bad.append('stream ended but %s not released (drops=%s)' % ('stream' if f_ % 2 == 0 else 'closure', rr.get('flags', {}).get(f_)))
            else:
                if can.get('ndrop') != 1: bad.append('pipe_in keeps the Desync alive: payload drops=%s after the last reference was dropped' % can.get('ndrop'))
                late = [g_ for g_ in o0['gates'] if g_ != 99 and gt.get(g_, {}).get('woke') and gt[g_]['at'] > can['dropend']]
                if late:
                    for f_ in (2 * pid, 2 * pid + 1):
                        if rr.get('flags', {}).get(f_) != 1: bad.append('stream event after the Desync was gone but %s not released (drops=%s)' % ('stream' if f_ % 2 == 0 else 'closure', rr.get('flags', {}).get(f_)))
            for f_ in (2 * pid, 2 * pid + 1):
                if rr.get('flags', {}).get(f_, 0) > 1: bad.append('flag %d dropped %d times' % (f_, rr['flags'][f_]))
        return ('reproduced', '; '.join(bad)) if bad else ('not_reproduced', '')
    if oracle == 'quiescent_complete':
        bad = []
        if unfinished: return 'not_reproduced', 'callers unfinished: %s' % unfinished
        for k, o in ops.items():
            n = rr['ops'][k]['nrun']
            if o['kind'] in ('desync', 'sync') and n != 1: bad.append('op%d nrun=%d' % (k, n))
            if o['kind'] == 'future_desync' and (n != 1 or rr['ops'][k]['end'] < 0): bad.append('future op%d nrun=%d end=%d' % (k, n, rr['ops'][k]['end']))
        for q, s in rr['queues'].items():
            if 'State: Idle, Pending: 0' not in s: bad.append('queue%d %s' % (q, s))
        return ('reproduced', '; '.join(bad)) if bad else ('not_reproduced', '')
    if oracle in ('results', 'final_try_sync'):
        bad = []
        for k, o in ops.items():
            r = rr['ops'][k]
            if r['ret'] < 0: continue
            if o['kind'] == 'sync' and (r['res'] != 40 + k or r['nrun'] != 1 or not (r['inv'] < r['start'] < r['end'] < r['ret'])): bad.append('sync op%d %r' % (k, r))
            if o['kind'] == 'try_sync':
                if r['res'] == 9999 and r['nrun'] != 0: bad.append('try_sync op%d busy but ran' % k)
                if r['res'] != 9999 and (r['res'] != 40 + k or r['nrun'] != 1): bad.append('try_sync op%d %r' % (k, r))
                if r['res'] == 9999 and o.get('probe') and oracle == 'final_try_sync': bad.append('probe try_sync op%d Busy at quiescence' % k)
        return ('reproduced', '; '.join(bad)) if bad else ('not_reproduced', '')
    if oracle == 'order':
        bad = []
        for a, oa in ops.items():
            for b, ob in ops.items():
                if a == b or oa['obj'] != ob['obj']: continue
                ra, rb = rr['ops'][a], rr['ops'][b]
                if oa['kind'] == 'try_sync' and ra['res'] == 9999: continue
                if ra['ret'] >= 0 and rb['inv'] >= 0 and ra['ret'] < rb['inv'] and rb['start'] >= 0 and (ra['end'] < 0 or rb['start'] < ra['end']):
                    bad.append('op%d returned before op%d was invoked but op%d started first' % (a, b, b))
        return ('reproduced', '; '.join(bad)) if bad else ('not_reproduced', '')
    if oracle == 'fut_results':
        bad = []
        for k, o in ops.items():
            if o['kind'] not in ('future_desync', 'future_sync'): continue
            r = rr['ops'][k]
            if r['nready'] > 1: bad.append('op%d resolved %d times' % (k, r['nready']))
            if r['fret'] >= 0:
                if r['end'] < 0 or r['fret'] < r['end'] or r['nrun'] != 1: bad.append('op%d resolved before its operation finished %r' % (k, r))
                if r['fres'] != 40 + k: bad.append('op%d resolved to %d' % (k, r['fres']))
        return ('reproduced', '; '.join(bad)) if bad else ('not_reproduced', '')
    if oracle == 'cancelled_clean':
        bad = []
        for k, o in ops.items():
            if o['kind'] != 'future_sync': continue
            r = rr['ops'][k]
            if r['fdropped'] >= 0 and r['nrun'] > 0 and r['end'] < 0: bad.append('op%d still open after its future was dropped' % k)
            if r['fdropped'] >= 0 and r['start'] >= 0 and r['fdropped'] < r['start']: bad.append('op%d started after its future was dropped' % k)
        return ('reproduced', '; '.join(bad)) if bad else ('not_reproduced', '')
    if oracle == 'suspend':
        bad = []
        for ks, so in ops.items():
            if so['kind'] != 'suspend': continue
            rs = rr['ops'][ks]
            for k, o in ops.items():
                if k == ks or o['obj'] != so['obj'] or o['kind'] == 'suspend': continue
                r = rr['ops'][k]
                if o['thread'] != so['thread']:
                    if rs['fret'] >= 0 and r['inv'] >= 0 and rs['fret'] < r['inv'] and r['start'] >= 0 and (rs['resumed'] < 0 or r['start'] < rs['resumed']): bad.append('op%d of another thread ran while suspended' % k)
                    continue
                if o['idx'] < so['idx'] and rs['fret'] >= 0 and (r['end'] < 0 or rs['fret'] < r['end']): bad.append('suspend resolved before op%d finished' % k)
                if o['idx'] > so['idx'] and rs['fret'] >= 0 and r['start'] >= 0 and r['start'] >= rs['fret'] and (rs['resumed'] < 0 or r['start'] < rs['resumed']): bad.append('op%d ran while suspended' % k)
                if o['idx'] > so['idx'] and rs['fret'] >= 0 and r['start'] >= 0 and r['start'] < rs['fret']: bad.append('op%d overtook the suspend' % k)
        return ('reproduced', '; '.join(bad)) if bad else ('not_reproduced', '')
    if oracle == 'memory':
        bad = []
        if rr.get('uaf', 0) > 0: bad.append('value touched after it was dropped (%d times)' % rr['uaf'])
        for cid, c in rr.get('canaries', {}).items():
            if c['ndrop'] > 1: bad.append('canary %d dropped %d times' % (cid, c['ndrop']))
            if c['dropend'] >= 0 and c['ndrop'] != 1: bad.append('canary %d dropped %d times although Desync::drop returned' % (cid, c['ndrop']))
        return ('reproduced', '; '.join(bad)) if bad else ('not_reproduced', 'note: job-storage use-after-free is not observable natively without a sanitizer')
    if oracle == 'drop_waits':
        bad = []
        for k, o in ops.items():
            if o['obj'] < 10: continue
            c = rr.get('canaries', {}).get(o['obj'] - 10)
            r = rr['ops'][k]
            if c is None or c['dropbegin'] < 0 or r['ret'] < 0 or r['ret'] > c['dropbegin']: continue
            if o['kind'] == 'try_sync' and r['res'] == 9999: continue
            if c['dropend'] >= 0 and (r['end'] < 0 or c['dropend'] < r['end']): bad.append('drop returned before op%d finished' % k)
            if c['freedat'] >= 0 and (r['end'] < 0 or c['freedat'] < r['end']): bad.append('value freed before op%d finished' % k)
        return ('reproduced', '; '.join(bad)) if bad else ('not_reproduced', '')
    if oracle == 'pool_max':
        pools = [n for n in rr['threads'] if re.match(r'P\d+$', n)]
        dsp = rr.get('despawn', {})
        if dsp.get('live', -1) >= 0 and dsp['live'] > dsp['max']: return 'reproduced', 'despawn_threads_if_overloaded returned with %d live pool threads, maximum %d' % (dsp['live'], dsp['max'])
        # (a scenario that changes the maximum only ever lowers it, so the initial maximum bounds the number of threads ever spawned)
        return ('reproduced', 'pool threads %s > max %d' % (pools, sc.get('pool_max', 0))) if len(pools) > sc.get('pool_max', 0) else ('not_reproduced', '')
    if oracle == 'independent':
        bad = [k for k, o in ops.items() if not o.get('gated') and o['kind'] in ('desync', 'sync') and rr['ops'][k]['nrun'] != 1]
        return ('reproduced', 'ops %s blocked' % bad) if quiet and bad else ('not_reproduced', rr.get('verdict'))
    return 'unknown_oracle', oracle

def opinfo(sc):
    ops = {}; k = 0; dcan = {}
    for th in sc['threads']:
        for op in th['ops']:
            if op[0] in ('d_new', 'p_new'): dcan.setdefault(op[1], len(dcan))
            if op[0] == 's_next':
                ops[k] = {'kind': 's_next', 'obj': -1, 'thread': th['name'], 'probe': False, 'idx': th['ops'].index(op), 'gated': False, 'ps': op[1]}
                k += 1; continue
            if op[0] in ('pipe_in', 'pipe'):
                b = op[2] if len(op) > 2 else {}
                gates = list(b.get('gates', [99])); cid = dcan.setdefault(op[1], len(dcan))
                for j, g_ in enumerate(gates):
                    ops[k] = {'kind': 'pipe_item', 'obj': 10 + cid, 'thread': th['name'], 'probe': False, 'idx': th['ops'].index(op), 'gated': False, 'item': j, 'gate': g_, 'pipe_base': k - j, 'n': len(gates), 'ends': bool(b.get('ends', True)), 'gates': gates, 'var': op[1], 'out': b.get('as', 'ps') if op[0] == 'pipe' else None}
                    k += 1
                continue
            if op[0] in ('sync', 'desync', 'try_sync', 'future_desync', 'future_sync', 'suspend', 'd_desync', 'd_sync', 'd_try_sync', 'd_future_desync'):
                b = op[2] if len(op) > 2 else {}
                if op[0].startswith('d_'):
                    cid = dcan.setdefault(op[1], len(dcan))
                    ops[k] = {'kind': op[0][2:], 'obj': 10 + cid, 'thread': th['name'], 'probe': False, 'idx': th['ops'].index(op), 'gated': isinstance(b.get('fut'), (list, tuple))}
                    k += 1; continue
                ops[k] = {'kind': op[0], 'obj': op[1], 'thread': th['name'], 'probe': b.get('probe'), 'idx': th['ops'].index(op),
                          'must_panic': bool(b.get('must_panic')), 'panics': ('panic' in b.get('acts', []) or b.get('fut') in ('panic', 'wake_panic')), 'gated': any(isinstance(x, (list, tuple)) and x[0] == 'gate' for x in b.get('acts', [])) or isinstance(b.get('fut'), (list, tuple)) or op[0] == 'suspend'}
                k += 1
                if op[0] in ('sync', 'desync', 'try_sync'):
                    for a in b.get('acts', []):
                        if isinstance(a, (list, tuple)) and a[0] in ('desync', 'sync'):
                            ops[k] = {'kind': a[0], 'obj': a[1], 'thread': th['name'] + '/nested', 'probe': False, 'idx': 0, 'must_panic': False, 'panics': False, 'gated': False, 'nested': True}
                            k += 1
    return ops

def replay_file(path):
    d = json.load(open(path))
    spec = d['scenario']; viol = d['violation']
    rr = run_replay(spec, viol['schedule'])
    if rr.get('status') == 'error': return rr
    st, detail = judge(spec, viol, rr)
    # the native run must also follow the model's visible sites one for one
    model_ops = [s['op'].split('::')[-1] for s in viol['schedule'].get('sites', [])]
    res = {'status': st, 'detail': detail, 'verdict': rr.get('verdict'), 'native_steps': len(rr['steps']), 'model_steps': len(model_ops), 'wall_s': rr['wall_s']}
    d['replay_result'] = res; d['native_run'] = rr
    json.dump(d, open(path, 'w'), indent=1)
    return res

if __name__ == '__main__':
    r = replay_file(sys.argv[1])
    print(json.dumps(r, indent=1))
    sys.exit(0 if r['status'] == 'reproduced' else 3)
