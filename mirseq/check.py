# Check runner: `python -m mirseq.check <PROPERTY> [--tier quick|thorough]`
#   exit 0  every query UNSAT with its witnesses SAT (KNOWN-FINDING lines allowed)
#   exit 1  + "VIOLATION property=<id> replay=<path>" for a violation not listed in known_findings.json
#   exit 2  inconclusive / broken (timeout, bound obligations, vacuous scenario, unsupported MIR, encoder mismatch)
import sys, os, json, time, hashlib, subprocess, shutil, tempfile, traceback, re, argparse
from multiprocessing import Pool

VERIF = os.path.dirname(os.path.dirname(os.path.abspath(__file__)))
REPO = os.environ.get('VERIF_REPO', '/repo')

def tree_hash(repo):
    h = hashlib.sha256()
    files = []
    for root, dirs, fs in os.walk(os.path.join(repo, 'src')):
        for f in sorted(fs): files.append(os.path.join(root, f))
    files += [os.path.join(repo, 'Cargo.toml'), os.path.join(repo, 'Cargo.lock')]
    for f in sorted(files):
        if os.path.exists(f):
            h.update(f.encode()); h.update(open(f, 'rb').read())
    return h.hexdigest()[:24]

def get_mir(repo=REPO, debug_assertions=False):
    """dump the MIR of the repository's *current working tree* (scratch copy outside /repo and /verif, removed afterwards).
    The dump is memoised by a hash of every source file + manifest, so an edit to the tree always forces a new dump."""
    key = tree_hash(repo) + ('-da' if debug_assertions else '')
    cache = os.path.join(VERIF, 'scratch', 'mir'); os.makedirs(cache, exist_ok=True)
    path = os.path.join(cache, key + '.mir')
    if os.path.exists(path) and os.environ.get('VERIF_NO_CACHE') != '1':
        return open(path).read(), key, 0.0
    t0 = time.time()
    scratch = tempfile.mkdtemp(prefix='mirseq_src_')
    try:
        src = os.path.join(scratch, 'src')
        subprocess.check_call(['rsync', '-a', '--exclude', 'target', '--exclude', '.git', repo + '/', src + '/'])
        env = dict(os.environ, CARGO_NET_OFFLINE='true', CARGO_TARGET_DIR=os.path.join(scratch, 'target'))
        env.pop('RUSTFLAGS', None)
        p = subprocess.run(['cargo', '+nightly', 'rustc', '--offline', '--lib', '--', '-Zunpretty=mir',
                            '-C', 'debug-assertions=' + ('on' if debug_assertions else 'off'), '-C', 'overflow-checks=on'],
                           cwd=src, env=env, capture_output=True, text=True)
        if p.returncode != 0 or 'fn ' not in p.stdout:
            raise RuntimeError('MIR dump failed:\n' + p.stderr[-3000:])
        open(path, 'w').write(p.stdout)
        return p.stdout, key, time.time() - t0
    finally:
        shutil.rmtree(scratch, ignore_errors=True)

def run_scenario(args):
    # a run that ends inconclusive *and* had feasibility checks time out during encoding (machine under load) is repeated once with a
    # ten times longer limit per check: kept-but-infeasible states are the usual cause of spurious bound obligations
    out = run_scenario_once(args, 3000)
    if out['status'] == 'inconclusive' and out.get('stats', {}).get('prune_unknown', 0) > 0:
        first = out
        out = run_scenario_once(args, 30000)
        out['notes'].append('second attempt (first attempt inconclusive with %d timed-out feasibility checks: %s)' % (first['stats']['prune_unknown'], '; '.join(first['notes'])[:160]))
        out['wall_s'] = round(out['wall_s'] + first['wall_s'], 2)
    return out

def run_scenario_once(args, per_check_ms):
    spec, mirpath, tier = args
    t0 = time.time()
    out = {'name': spec['name'], 'status': 'ok', 'queries': [], 'violations': [], 'notes': []}
    try:
        from .scen import load_program, World
        from .prune import IncSolver
        from .oracles import ORACLES
        from .expr import Or, And, Not, TRUE, FALSE, evaluate, nodes
        from . import expr
        prog = load_program(open(mirpath).read(), REPO, spec.get('cap', 3))
        w = World(prog, spec['scen'], cap=spec.get('cap', 3)); w.build()
        sol = IncSolver(per_check_ms=per_check_ms)
        w.m.pruner = sol
        w.run(R=spec['R'], B=spec['B'], order=spec.get('order'), seq=spec.get('seq'), verbose=bool(os.environ.get('VERIF_VERBOSE')))
        out['encode_s'] = round(time.time() - t0, 2)
        out['stats'] = dict(nodes=nodes(), steps=w.m.stats['steps'], blocks=w.m.stats['blocks'], stmts=w.m.stats['stmts'],
                            sites=len(w.m.stats['sites']), pruned=w.m.stats.get('pruned', 0), prune_checks=sol.nchecks,
                            prune_time=round(sol.time, 2), prune_unknown=sol.nunknown, prune_retries=sol.nretries, threads=len(w.m.threads) - 1, actvars=len(w.actvars),
                            alloc_split=w.m.stats.get('alloc_split', 0), alloc_max=w.m.stats.get('alloc_max', 0))
        out['functions'] = sorted(set(w.m.fn_of(cp).name for (tid, (cp, b, ph)) in w.m.stats['sites'] if cp != 'END'))[:400]
        qt = spec.get('query_timeout', 300 if tier == 'quick' else 1800)
        def ask(name, e):
            r, mod = sol.check(name, e, timeout_s=qt)
            out['queries'].append({'name': name, 'verdict': r, 'time_s': round(sol.log[-1][2], 2)})
            return r, mod
        # 1. bound / encoder obligations must be unreachable (one query; split by kind only when it is not UNSAT)
        allobl = Or(*[g for _, _, g in w.m.obligations])
        r, mod = ask('obligations:all(%d)' % len(w.m.obligations), allobl)
        if r != 'unsat':
            kinds = sorted(set(k for k, _, _ in w.m.obligations))
            for kind in kinds:
                r, mod = ask('obligation:' + kind, Or(*[g for k, _, g in w.m.obligations if k == kind]))
                if r == 'sat':
                    which = sorted(set(t for k, t, g in w.m.obligations if k == kind and evaluate(g, mod)))
                    out['status'] = 'inconclusive'; out['notes'].append('bound/encoder obligation reachable (%s): %s' % (kind, '; '.join(which[:3])))
                elif r != 'unsat':
                    out['status'] = 'inconclusive'; out['notes'].append('obligation %s: solver %s' % (kind, mod))
        # 2. vacuity witness: the scenario can run to completion within the bounds
        wit = w.quiescent
        if spec.get('witness') == 'ungated_done':
            from .expr import Eq, ONE, ZERO
            wit = And(*[Eq(w.ghost.get('nrun%d' % o['opid'], ZERO), ONE) for o in w.ops.values() if not o.get('gated')])
        if spec.get('witness') == 'callers_done': wit = w.allfin      # scenarios that leave a pool thread blocked on a gate for good
        r, mod = ask('witness:' + (spec.get('witness') or 'quiescent'), wit)
        if r != 'sat':
            out['status'] = 'inconclusive'; out['notes'].append('vacuous: no schedule within the bounds lets every thread finish (%s)' % r)
        else:
            out['witness'] = decode(w, mod)
        # 3. property oracles.  A model that matches a *listed* finding is recorded, its formula-level description is excluded
        #    and the oracle is asked again, so that a different violation of the same oracle is still found.
        from .known import PREDICATES
        known = [f for f in load_known().get('findings', []) if f.get('status') == 'known' and f['property'] == spec.get('prop')]
        if os.environ.get('VERIF_NO_KNOWN') == '1': known = []      # debugging aid: report listed findings like any other violation
        allclauses = []
        for oname in spec['oracles']:
            cl = [(n, g) for n, g in ORACLES[oname](w) if g is not FALSE]
            out.setdefault('clauses', {})[oname] = len(cl)
            allclauses += [(oname, n, g) for n, g in cl]
        excl = TRUE
        r, mod = ask('oracles:all(%d clauses)' % len(allclauses), Or(*[g for _, _, g in allclauses]))
        todo = [] if r == 'unsat' else list(spec['oracles'])
        if r not in ('sat', 'unsat'):
            out['notes'].append('combined oracle query: solver %s; asking the oracles one by one' % (mod,))
        for oname in todo:
            clauses = [(n, g) for o, n, g in allclauses if o == oname]
            excl = TRUE
            for attempt in range(1 + len(known)):
                r, mod = ask('oracle:' + oname + ('' if attempt == 0 else '#%d' % attempt), And(excl, Or(*[g for _, g in clauses])))
                if r == 'sat':
                    hit = [n for n, g in clauses if evaluate(g, mod)]
                    kf = None
                    for f in known:
                        if oname in f.get('oracles', [oname]) and evaluate(PREDICATES[f['predicate']](w), mod): kf = f; break
                    v = {'oracle': oname, 'clauses': hit, 'schedule': decode(w, mod)}
                    if kf is not None:
                        v['known'] = kf['id']; out['violations'].append(v)
                        excl = And(excl, Not(PREDICATES[kf['predicate']](w)))
                        continue
                    out['violations'].append(v)
                    if out['status'] == 'ok': out['status'] = 'violation'
                elif r != 'unsat':
                    out['status'] = 'inconclusive'; out['notes'].append('oracle %s: solver %s' % (oname, mod))
                break
        out['solver_s'] = round(sol.qtime, 2); out['nqueries'] = sol.nqueries
        sol.close()
    except Exception as e:
        out['status'] = 'inconclusive'; out['notes'].append('encoder error: %s: %s' % (type(e).__name__, e))
        if os.environ.get('VERIF_TRACEBACK'): traceback.print_exc()
        out['trace'] = traceback.format_exc()[-1500:]
    out['wall_s'] = round(time.time() - t0, 2)
    return out

def decode(w, mod, brief=False):
    """model -> schedule: slot windows (thread, steps) and the visible sites taken"""
    from .expr import evaluate
    names = {t.tid: t.name for t in w.m.threads}
    cache = {}
    slots = []; sites = []
    for slot, stepno, tid, poskey, go, what in w.m.trace_sites:
        if evaluate(go, mod, cache):
            cp, blk, ph = poskey
            fn = w.m.fn_of(cp).name
            fn = re.sub(r'<impl at [^>]*>', '', fn)
            if slots and slots[-1][0] == slot[0] and slots[-1][1] == names[tid]: slots[-1][2] += 1
            else: slots.append([slot[0], names[tid], 1])
            sites.append({'thread': names[tid], 'round': slot[0], 'fn': fn.strip(':'), 'block': blk, 'phase': ph, 'op': what})
    final = {}
    for t in w.m.threads:
        if t.role == 'init': continue
        where = [('END' if k[2] == 'E' else '%s %s ph=%s' % (re.sub(r'<impl at [^>]*>', '', w.m.fn_of(k[0]).name).strip(':'), k[1], k[2]))
                 for k, st in t.states.items() if evaluate(st.g, mod, cache)]
        final[t.name] = {'finished': bool(evaluate(w.fin[t.tid], mod, cache)), 'blocked': bool(evaluate(w.blocked[t.tid], mod, cache)),
                         'started': bool(evaluate(t.started, mod, cache)), 'at': where}
    d = {'slots': [{'round': r, 'thread': n, 'steps': k} for r, n, k in slots], 'final': final}
    if not brief: d['sites'] = sites
    return d

def load_known():
    p = os.path.join(VERIF, 'known_findings.json')
    return json.load(open(p)) if os.path.exists(p) else {'findings': []}

def match_known(known, prop, scen_name, viol):
    """a listed finding suppresses exactly the violations whose scenario family, oracle clause kind and culprit site match"""
    sites = viol['schedule'].get('sites', [])
    for f in known.get('findings', []):
        if f.get('status') != 'known' or f['property'] != prop: continue
        k = f['match']
        if k.get('scenario_prefix') and not scen_name.startswith(k['scenario_prefix']): continue
        if k.get('clause_prefix') and not any(c.startswith(k['clause_prefix']) for c in viol['clauses']): continue
        need = k.get('site_sequence', [])
        i = 0
        for sdesc in sites:
            if i < len(need) and need[i]['thread_op'] in sdesc['fn'] + ' ' + sdesc['op'] and need[i].get('fn', '') in sdesc['fn']: i += 1
        if i == len(need): return f
    return None

def main():
    ap = argparse.ArgumentParser()
    ap.add_argument('prop'); ap.add_argument('--tier', default=os.environ.get('VERIF_TIER', 'quick'))
    ap.add_argument('--jobs', type=int, default=int(os.environ.get('VERIF_JOBS', '14')))
    ap.add_argument('--only', default=None)
    a = ap.parse_args()
    from . import props
    prop = a.prop; tier = a.tier if a.tier in ('quick', 'thorough') else 'quick'
    seed = int(os.environ.get('VERIF_SEED', '0') or 0)
    t0 = time.time()
    evdir = os.environ.get('VERIF_EVIDENCE_DIR', os.path.join(VERIF, 'evidence'))
    os.makedirs(evdir, exist_ok=True)
    evpath = os.path.join(evdir, prop + '.json')
    specs = props.scenarios(prop, tier, seed)
    for s in specs: s['prop'] = prop
    if a.only: specs = [s for s in specs if a.only in s['name']]
    try:
        mir, key, dump_s = get_mir()
    except Exception as e:
        print('INCONCLUSIVE property=%s: %s' % (prop, e)); write_evidence(evpath, prop, tier, seed, [], time.time() - t0, 0, note=str(e)); sys.exit(2)
    mirpath = os.path.join(VERIF, 'scratch', 'mir', key + '.mir')
    print('[%s] tier=%s seed=%d scenarios=%d  MIR %s (dump %.1fs)' % (prop, tier, seed, len(specs), key, dump_s), flush=True)
    with Pool(min(a.jobs, max(1, len(specs)))) as pool:
        results = []
        for r in pool.imap_unordered(run_scenario, [(s, mirpath, tier) for s in specs]):
            results.append(r)
            print('  %-34s %-12s enc %6.1fs solve %6.1fs  %s' % (r['name'], r['status'], r.get('encode_s', 0), r.get('solver_s', 0), '; '.join(r['notes'])[:200]), flush=True)
    results.sort(key=lambda r: r['name'])
    # replay every scenario's witness schedule (a passing run chosen by the solver) on the real build: the library must follow
    # it step for step and finish with the same quiescent outcome; a divergence is an encoder defect (exit 2)
    nvalid = 0
    if os.environ.get('VERIF_NO_WITNESS_REPLAY') != '1':
        from . import replay as rp
        for r in results:
            if not r.get('witness') or r['status'] == 'inconclusive': continue
            spec = [s for s in specs if s['name'] == r['name']][0]
            for attempt in range(2):
                try:
                    rr = rp.run_replay(spec, r['witness'])
                except Exception as e:
                    rr = {'status': 'error', 'detail': str(e)}
                if rr.get('status') != 'error': break
            if rr.get('status') == 'error':
                r['witness_replay'] = {'status': 'error', 'detail': rr.get('detail', '')[-300:]}
                r['status'] = 'inconclusive'; r['notes'].append('witness replay failed to build/run: ' + rr.get('detail', '')[-200:])
                continue
            verdict = rr.get('verdict', '')
            ok = not verdict.startswith('DIVERGED') and verdict not in ('TIMEOUT', 'STEP-LIMIT')
            r['witness_replay'] = {'status': 'followed' if ok else 'diverged', 'verdict': verdict, 'native_steps': len(rr.get('steps', [])), 'model_steps': len(r['witness'].get('sites', []))}
            if ok: nvalid += 1
            else:
                r['status'] = 'inconclusive'; r['notes'].append('ENCODING-MISMATCH on witness schedule: ' + verdict[:200])
                try:    # keep the diverging witness for debugging (tools/dbg.py, tools/showviol.py)
                    wp = os.path.join(os.environ.get('VERIF_REPLAY_DIR', os.path.join(VERIF, 'scratch', 'replay')), '%s_%s_witness.json' % (prop, r['name']))
                    os.makedirs(os.path.dirname(wp), exist_ok=True)
                    json.dump({'property': prop, 'scenario': spec, 'violation': {'oracle': 'witness', 'clauses': [], 'schedule': r['witness']}, 'native_run': rr}, open(wp, 'w'), indent=1)
                except Exception: pass
                print('ENCODING-MISMATCH property=%s scenario=%s: witness schedule not followed by the real build (%s)' % (prop, r['name'], verdict[:160]))
            r['witness'].pop('sites', None)
    known = load_known()
    rc = 0; nviol = 0; printed = set()
    os.makedirs(os.path.join(VERIF, 'scratch', 'replay'), exist_ok=True)
    for r in results:
        if r['status'] == 'inconclusive': rc = max(rc, 2)
        for v in r['violations']:
            if v.get('known'):
                f = [x for x in known['findings'] if x['id'] == v['known']][0]
                line = 'KNOWN-FINDING: property=%s %s' % (prop, f['what'])
                if line not in printed: print(line); printed.add(line)
                v['replay'] = {'status': 'known-finding'}
                continue
            # replay against the real build before reporting
            path = os.path.join(os.environ.get('VERIF_REPLAY_DIR', os.path.join(VERIF, 'scratch', 'replay')), '%s_%s_%s.json' % (prop, r['name'], v['oracle']))
            os.makedirs(os.path.dirname(path), exist_ok=True)
            json.dump({'property': prop, 'scenario': [s for s in specs if s['name'] == r['name']][0], 'violation': v}, open(path, 'w'), indent=1)
            rep = replay(path)
            v['replay'] = rep
            if rep['status'] == 'reproduced' or rep['status'] == 'unavailable':
                nviol += 1; rc = max(rc, 1)
                print('VIOLATION property=%s replay=%s' % (prop, path))
                print('   scenario %s oracle %s clauses %s  (replay: %s)' % (r['name'], v['oracle'], ','.join(v['clauses'][:3]), rep['status']))
            else:
                rc = 2
                print('ENCODING-MISMATCH property=%s scenario=%s: solver schedule did not reproduce on the real build (%s)' % (prop, r['name'], rep.get('detail', '')[:200]))
    # a violation that reproduced on the real build is reported as such even if another scenario was inconclusive
    if nviol > 0: rc = 1
    write_evidence(evpath, prop, tier, seed, results, time.time() - t0, nviol, mirkey=key, nvalid=nvalid)
    print('[%s] %s  wall %.1fs' % (prop, {0: 'PASS', 1: 'VIOLATION', 2: 'INCONCLUSIVE'}[rc], time.time() - t0))
    sys.exit(rc)

def replay(path):
    try:
        from . import replay as rp
        return rp.replay_file(path)
    except ImportError:
        return {'status': 'unavailable', 'detail': 'replay harness not built'}
    except Exception as e:
        return {'status': 'error', 'detail': '%s: %s' % (type(e).__name__, e)}

def write_evidence(path, prop, tier, seed, results, wall, nviol, mirkey='', note='', nvalid=0):
    from . import props
    queries = [dict(q, scenario=r['name']) for r in results for q in r['queries']]
    fns = sorted(set(f for r in results for f in r.get('functions', [])))
    samples = []
    for r in results[:6]:
        s = {'scenario': r['name'], 'status': r['status'], 'bounds': r.get('bounds'), 'queries': [(q['name'], q['verdict'], q['time_s']) for q in r['queries']]}
        if r.get('witness'): s['witness_schedule'] = r['witness']['slots']
        samples.append(s)
    ev = {
        'property_id': prop, 'tier': tier, 'seed': seed, 'level': 'model_checking',
        'coverage': {
            'states': sum(r.get('stats', {}).get('stmts', 0) for r in results) or 1,
            'transitions': sum(r.get('stats', {}).get('steps', 0) for r in results) or 1,
            'traces_validated_against_impl': nvalid + sum(1 for r in results for v in r['violations'] if v.get('replay', {}).get('status') == 'reproduced'),
            'samples': samples or [{'note': note or 'no scenario ran'}],
            'explanation': 'states = MIR statement instances symbolically executed (merged per position); transitions = visible steps of the bounded '
                           'round-robin sequentialisation; every query is decided by z3 over all schedules expressible within the stated bounds',
            'scenarios': [{'name': r['name'], 'status': r['status'], 'stats': r.get('stats'), 'encode_s': r.get('encode_s'), 'solver_s': r.get('solver_s'),
                           'notes': r['notes'], 'clauses': r.get('clauses'), 'witness_replay': r.get('witness_replay')} for r in results],
            'bounds': props.bounds_text(prop, tier),
            'queries_discharged': len(queries),
            'queries': queries[:400],
            'solver_time_s': round(sum(r.get('solver_s', 0) for r in results), 1),
            'encode_time_s': round(sum(r.get('encode_s', 0) for r in results), 1),
            'functions_encoded': fns,
            'mir_tree_hash': mirkey,
            'exhaustive': False,
        },
        'assumptions': props.ASSUMPTIONS,
        'wall_s': round(wall, 1), 'violations': nviol,
    }
    json.dump(ev, open(path, 'w'), indent=1)

if __name__ == '__main__':
    main()
