# Native models of std / futures primitives (the trusted part of the encoding).  Everything here is a
# few lines; blocking or externally observable operations are *visible* (scheduling points).
import re
from .expr import *
from .values import *
from .engine import Native, FnNative, Dispatch, PANIC, PanicIf, EncodeError, norm_callee, typehead, ptr_eq
from . import mirparse as mp

OPT = ('Option', None); RES = ('Result', None); POLL = ('Poll', None); TLE = ('TryLockError', None)
def Some(v): return En(OPT, ONE, {1: St(None, {0: v})})
def NoneV(): return En(OPT, ZERO, {})
def Ok(v): return En(RES, ZERO, {0: St(None, {0: v})})
def Err(v): return En(RES, ONE, {1: St(None, {0: v})})
def Ready(v): return En(POLL, ZERO, {0: St(None, {0: v})})
def Pending(): return En(POLL, ONE, {})
def payload(en, idx):
    if not isinstance(en, En): return POISON
    p = en.vars.get(idx)
    return p.f.get(0) if p is not None else None

class Natives(object):
    def __init__(s, prog):
        s.prog = prog; s.cache = {}; s.table = {}; s.trait = {}
        s.waker_types = []          # index = vtable id
        s.install()
    # ------------------------------------------------------------------ registration helpers
    def reg(s, names, fn, visible=False, enabled=None, phases=1):
        for n in names.split():
            s.table[n] = FnNative(n, fn, visible, enabled, phases)
    def regt(s, trait, meth, heads, fn, visible=False, enabled=None):
        for h in heads.split():
            s.trait[(trait, meth, h)] = FnNative('%s::%s<%s>' % (trait, meth, h), fn, visible, enabled)
    def lookup(s, callee):
        nc = norm_callee(callee)
        if nc[0] == 'path':
            segs = nc[1]
            for k in range(min(4, len(segs)), 0, -1):
                n = s.table.get('::'.join(segs[-k:]))
                if n is not None: return n
            return None
        _, trait, meth, thead, X = nc
        return s.trait.get((trait, meth, thead)) or s.trait.get((trait, meth, '*'))
    # ------------------------------------------------------------------ dynamic dispatch on runtime shape
    def dynamic(s, m, trait, meth, thead, args, g, X):
        """resolve <X as Trait>::meth by the runtime value of the receiver"""
        P = s.prog
        recv = args[0] if args else None
        alts = []
        def add(gg, v, refv):
            # v: receiver value by value; refv: a Ref to it if available
            if isinstance(v, Mix):
                for x, a in v.alts: add(And(gg, x), a, None)
                return
            if isinstance(v, Ref) and trait in ('FnOnce', 'FnMut', 'Fn', 'Future', 'ScheduledJob', 'Stream', 'IntoFuture', 'ArcWake'):
                # look through references / boxes to the concrete object
                for x, c, p in v.tg:
                    fr = m.freed.get(c.id) if not hasattr(c, 'tid') else None
                    if fr is not None: m.violate('use-after-free:job-storage:%s' % c.name, And(g, gg, x, fr))
                    add(And(gg, x), m.load(Ref([(TRUE, c, p)]), g), Ref([(TRUE, c, p)]))
                return
            if isinstance(v, St) and v.ty in ('Box', 'Pin', 'FutureObj', 'LocalFutureObj', 'AssertUnwindSafe'):
                inner = v.f.get('p', v.f.get(0))
                add(gg, inner, None); return
            f = None
            if trait in ('FnOnce', 'FnMut', 'Fn'):
                if isinstance(v, St) and v.ty and v.ty.startswith('{closure@'):
                    f = P.closures.get(v.ty[9:-1])
                    if f is None: raise EncodeError('no MIR for closure ' + v.ty)
                    a0 = v
                    if getattr(f, 'self_by_ref', False):
                        if refv is None:
                            tmp = Cell(v, 'closure_tmp'); refv = Ref.to(tmp)
                        a0 = refv
                    rest = []
                    if len(args) > 1:
                        tup = args[1]
                        rest = [tup.f[i] for i in sorted(tup.f)] if isinstance(tup, St) and tup.ty in ('tuple', '()') else [tup]
                    alts.append((gg, f, [a0] + rest, v.ty)); return
                if isinstance(v, Nat):
                    alts.append((gg, s.nat_call(m, v), [v, refv] + list(args[1:]), 'nat:' + v.kind)); return
            elif trait in ('Future', 'Stream') and meth in ('poll', 'poll_next'):
                if isinstance(v, En) and isinstance(v.ty, str) and v.ty.startswith('{coroutine@'):
                    f = P.closures.get(v.ty[11:-1])
                    if f is None: raise EncodeError('no MIR for coroutine ' + v.ty)
                    alts.append((gg, f, [St('Pin', {0: refv}), args[1]], v.ty)); return
                if isinstance(v, St) and (trait, v.ty, meth) in P.traitm:
                    alts.append((gg, P.traitm[(trait, v.ty, meth)], [St('Pin', {0: refv}), args[1]], v.ty)); return
                if isinstance(v, St) and ('nat', trait, v.ty, meth) in s.table:
                    alts.append((gg, s.table[('nat', trait, v.ty, meth)], [refv, args[1]], v.ty)); return
                if isinstance(v, Nat):
                    alts.append((gg, s.nat_poll(m, v), [v, refv] + list(args[1:]), 'nat:' + v.kind)); return
            elif isinstance(v, St) and (trait, v.ty, meth) in P.traitm:
                a0 = refv if refv is not None else v
                alts.append((gg, P.traitm[(trait, v.ty, meth)], [a0] + list(args[1:]), v.ty)); return
            if v is None or v is POISON: alts.append((gg, None, args, None)); return
            raise EncodeError('cannot dispatch <%s as %s>::%s on %r' % (X, trait, meth, v if not isinstance(v, (St, En)) else v.ty))
        if trait == 'Iterator' and isinstance(recv, Ref):
            v = m.load(recv, g)
            if isinstance(v, St) and (trait, meth, v.ty) in s.trait:
                return Dispatch([(TRUE, s.trait[(trait, meth, v.ty)], args, None)])
        add(TRUE, recv, None)
        if not alts:
            if m.debug: print('   EMPTY DISPATCH <%s as %s>::%s recv=%r' % (X, trait, meth, recv))
            alts.append((TRUE, None, args, None))
        return Dispatch(alts)
    def nat_call(s, m, v): raise EncodeError('scenario closure hook not installed')
    def nat_poll(s, m, v): raise EncodeError('scenario future hook not installed')
    # ------------------------------------------------------------------ drop glue
    def trivial(s, m, v, depth=0):
        if v is None or v is POISON or isinstance(v, (E, Ref, Opaque)): return True
        if isinstance(v, Nat): return not v.p.get('droppable')
        if isinstance(v, St):
            if v.ty in s.prog.drops: return False
            if v.ty in ('MutexGuard', 'Arc', 'Weak', 'Box', 'Sender', 'Receiver', 'Waker', 'OneSender', 'OneReceiver', 'FutureObj', 'Pin'):
                if v.ty == 'Pin': return s.trivial(m, v.f.get(0), depth + 1)
                return False
            return all(s.trivial(m, x, depth + 1) for x in v.f.values())
        if isinstance(v, En):
            return all(s.trivial(m, x, depth + 1) for x in v.vars.values())
        if isinstance(v, Mix): return all(s.trivial(m, a, depth + 1) for _, a in v.alts)
        return True
    def drop_plan(s, m, th, ref, g):
        """apply immediate drop effects of the value at `ref`, return [(guard, gluefn, args, alt)] for the parts that need code"""
        out = []
        for x, c, p in ref.tg:
            gg = And(g, x)
            if gg is FALSE: continue
            one = Ref([(TRUE, c, p)])
            v = m.load(one, gg)
            s._plan(m, th, one, v, x, gg, out)
        return out
    def _plan(s, m, th, one, v, x, gg, out):
        if isinstance(v, Mix):
            for y, a in v.alts: s._plan(m, th, one, a, And(x, y), And(gg, y), out)
            return
        if s.trivial(m, v): return
        if isinstance(v, St):
            ty = v.ty
            if ty == 'MutexGuard':
                mu = v.f['m']
                vis = m.load(mu.proj(('f', 'vis')), gg)
                if vis is TRUE and not (m.st is not None and m.st.unw):
                    out.append((x, s.fn_unlock_visible, [mu], 'unlock')); return
                if m.debug: m.stats.setdefault('lockers', {}).pop(repr(mu), None)
                m.store(mu.proj(('f', 'locked')), FALSE, gg)
                if m.unwind_mode and m.st is not None and m.st.unw and v.f.get('pan', FALSE) is not TRUE:
                    m.store(mu.proj(('f', 'poison')), TRUE, gg)
                return
            if ty == 'Sender':
                if m.debug: m.stats.setdefault('sender_drops', []).append((gg, m.fn_of(m.st.cp).name[-40:], m.st.blk, th.name))
                ch = v.f['c']; n = m.load(ch.proj(('f', 'senders')), gg)
                m.store(ch.proj(('f', 'senders')), Sub(n, ONE), gg); return
            if ty == 'Receiver':
                m.store(v.f['c'].proj(('f', 'rx_alive')), FALSE, gg); return
        f = s.glue_for(m, v)
        out.append((x, f, [one], 'drop:' + f.name))
    def glue_for(s, m, v):
        """synthesise (and cache) a MIR-like drop function for the runtime shape of v"""
        sig = s.shape_sig(v)
        f = s.gluecache.get(sig) if hasattr(s, 'gluecache') else None
        if not hasattr(s, 'gluecache'): s.gluecache = {}
        f = s.gluecache.get(sig)
        if f is not None: return f
        name = '__drop::%s#%d' % (sig[0] if isinstance(sig[0], str) else str(sig[0]), len(s.gluecache))
        f = mp.Fn(name, name); f.params = ['&mut T']; f.origin = 'glue'
        B = []
        def blk(stmts, term):
            b = mp.Blk(); b.stmts = stmts; b.term = term; B.append(b); return 'bb%d' % (len(B) - 1)
        self_place = ('deref', ('local', 1))
        # blocks are generated in reverse dependency order, so build a list of steps first
        steps = []      # each: ('call', callee, [operands]) | ('drop', place) | ('switch', ...)
        if isinstance(v, St):
            ty = v.ty
            if ty in s.prog.drops:
                steps.append(('callfn', s.prog.drops[ty], [('copy', ('local', 1))]))
                for k in v.f: steps.append(('drop', ('field', self_place, k)))
            elif ty == 'Arc': steps.append(('native', '__arc_drop', [('copy', ('local', 1))]))
            elif ty == 'Weak': steps.append(('native', '__weak_drop', [('copy', ('local', 1))]))
            elif ty == 'Box': steps.append(('native', '__box_drop', [('copy', ('local', 1))]))
            elif ty == 'Waker': steps.append(('native', '__waker_drop', [('copy', ('local', 1))]))
            elif ty in ('OneSender', 'OneReceiver'): steps.append(('native', '__oneshot_drop', [('copy', ('local', 1))]))
            elif ty == 'FutureObj': steps.append(('drop', ('field', self_place, 'p')))
            elif ty in ('Vec', 'IntoIter'):
                for k in range(m.CAP):
                    place = ('field', self_place, k) if ty == 'Vec' else ('field', ('field', self_place, 'v'), k)
                    steps.append(('dropif', k, place))
            elif ty in ('Iter', 'Chan'): pass
            else:
                for k in v.f: steps.append(('drop', ('field', self_place, k)))
        elif isinstance(v, En):
            steps.append(('enum', v))
        elif isinstance(v, Nat):
            steps.append(('native', '__nat_drop', [('copy', ('local', 1))]))
        # emit
        f.blocks = {}
        names = []
        def new(name=None):
            n = 'bb%d' % len(f.blocks); f.blocks[n] = mp.Blk(); return n
        cur = new()
        for st in steps:
            nxt = new()
            b = f.blocks[cur]
            if st[0] == 'callfn': b.term = ('call', None, '__direct:%d' % st[1].key, st[2], nxt, None)
            elif st[0] == 'native': b.term = ('call', ('local', 2), st[1], st[2], nxt, None)
            elif st[0] == 'drop': b.term = ('drop', st[1], nxt, None)
            elif st[0] == 'dropif':
                db = new()
                b.term = ('call', ('local', 2), '__vec_has', [('copy', ('local', 1)), ('const', '%d_usize' % st[1])], cur + '_sw', None)
                sw = mp.Blk(); f.blocks[cur + '_sw'] = sw
                sw.term = ('switch', ('copy', ('local', 2)), [(0, nxt)], db)
                f.blocks[db].term = ('drop', st[2], nxt, None)
            elif st[0] == 'enum':
                en = st[1]
                b.stmts = [('assign', ('local', 2), ('discr', self_place))]
                arms = []
                for idx, pay in en.vars.items():
                    if idx == 'up': continue
                    if s.trivial(m, pay): continue
                    vb = new(); arms.append((idx, vb))
                    c2 = vb
                    for k in pay.f:
                        n2 = new(); f.blocks[c2].term = ('drop', ('field', ('downcast', self_place, 'variant#%d' % idx), k), n2, None); c2 = n2
                    f.blocks[c2].term = ('goto', nxt)
                up = en.vars.get('up')
                if up is not None and not s.trivial(m, up) and isinstance(en.ty, str) and en.ty.startswith('{coroutine@'):
                    # unresumed coroutine (state 0) owns all its upvars; states 1/2 own nothing.  Suspended states are
                    # handled by their variant arms above plus the upvars that are still live, which we do not know
                    # without the drop shim: flagged as an obligation when reachable.
                    vb = new(); arms = [(0, vb)] + [a for a in arms if a[0] != 0]
                    c2 = vb
                    for k in up.f:
                        n2 = new(); f.blocks[c2].term = ('drop', ('field', self_place, k), n2, None); c2 = n2
                    f.blocks[c2].term = ('goto', nxt)
                    f.coroutine_partial = True
                b.term = ('switch', ('copy', ('local', 2)), arms, nxt)
            cur = nxt
        f.blocks[cur].term = ('return',)
        m.prog.add_fn(f)
        s.gluecache[sig] = f
        return f
    def shape_sig(s, v):
        if isinstance(v, St): return (v.ty or 'struct', tuple(v.f.keys()))
        if isinstance(v, En): return (str(v.ty), tuple((k, tuple(p.f.keys()) if isinstance(p, St) else ()) for k, p in v.vars.items()),
                                      tuple(k for k, p in v.vars.items() if not s.trivial(None, p)))
        if isinstance(v, Nat): return ('nat', v.kind)
        return ('?',)
    # ------------------------------------------------------------------ the models
    def install(s):
        R = s.reg; T = s.regt
        # ---- identity-like
        ident = lambda m, th, a, g: a[0]
        R('Pin::new_unchecked Pin::new Pin::into_inner Pin::get_mut Pin::get_unchecked_mut Pin::as_mut must_use black_box '
          'IntoFuture::into_future Box::pin AssertUnwindSafe', ident)
        R('Pin::new_unchecked Pin::new', lambda m, th, a, g: St('Pin', {0: a[0]}))
        R('Pin::get_mut Pin::get_unchecked_mut Pin::into_inner Pin::into_inner_unchecked', lambda m, th, a, g: a[0].f[0] if isinstance(a[0], St) else POISON)
        T('IntoFuture', 'into_future', '*', ident)
        T('IntoIterator', 'into_iter', 'Iter IterMut', ident)
        T('Deref', 'deref', 'Pin', lambda m, th, a, g: _pin_target(m, a[0], g))
        T('DerefMut', 'deref_mut', 'Pin', lambda m, th, a, g: _pin_target(m, a[0], g))
        R('Pin::as_mut', lambda m, th, a, g: St('Pin', {0: _pin_target(m, a[0], g)}))
        # ---- Box
        def box_new(m, th, a, g):
            tg = []
            def box_dead(c, gg):
                fr = m.freed.get(c.id)
                return fr is not None and restrict(fr, gg) is TRUE
            for cg, c in m.alloc_n(th, ('box',) + m.cur_site, 'box@' + m.cur_site_name, g, dead=box_dead):
                gg = And(g, cg)
                if c.id in m.freed: m.freed[c.id] = And(m.freed[c.id], Not(gg))
                m.store(Ref.to(c), a[0], gg)
                tg.append((cg, c, ()))
            return St('Box', {'p': Ref(tg)})
        R('Box::new', box_new)
        R('Box::into_raw', lambda m, th, a, g: a[0].f['p'] if isinstance(a[0], St) else POISON)
        R('Box::from_raw', lambda m, th, a, g: St('Box', {'p': a[0]}))
        def box_drop(m, th, a, g):
            b = m.load(a[0], g)
            if not isinstance(b, St): return UNIT
            return Dispatch([(TRUE, s.fn_box_free, [b.f['p']], 'boxcontent')])
        def box_free(m, th, a, g):
            p = a[0]
            if isinstance(p, Ref):
                for x, c, q in p.tg:
                    if hasattr(c, 'tid'): continue
                    old = m.freed.get(c.id, FALSE)
                    m.violate('double-free:%s' % c.name, And(g, x, old))
                    m.freed[c.id] = Or(old, And(g, x))
            return UNIT
        R('__box_free', box_free)
        R('__box_drop', box_drop)
        T('Drop', 'drop', 'Box', lambda m, th, a, g: Dispatch([(TRUE, s.fn_box_free, [m.load(a[0], g).f['p']], 'boxcontent')]))
        # ---- Arc / Weak
        def arc_new(m, th, a, g):
            pinned = s.arc_pinned(m.cur_callee)
            tg = []
            def arc_dead(c, gg):
                if c.id in s.pinned: return False
                v = m.load(Ref.to(c), gg)
                if not isinstance(v, St) or not isinstance(v.f.get('strong'), E): return False
                return restrict(v.f['strong'], gg) is ZERO and v.f.get('weak') is ONE       # weak != 1: a Weak may still point here
            for cg, c in m.alloc_n(th, ('arc',) + m.cur_site, 'arc@' + m.cur_site_name, g, dead=arc_dead):
                m.store(Ref.to(c), St('ArcInner', {'strong': ONE, 'weak': ONE, 'data': a[0]}), And(g, cg))
                if pinned: s.pinned.add(c.id)
                tg.append((cg, c, ()))
            return St('Arc', {'p': Ref(tg)})
        s.pinned = set()
        R('Arc::new', arc_new)
        def arc_data(m, arc, g):
            if not isinstance(arc, St) or 'p' not in arc.f: return Ref([])
            return arc.f['p'].proj(('f', 'data'))
        T('Deref', 'deref', 'Arc', lambda m, th, a, g: arc_data(m, m.load_typed(a[0], g, ('Arc',)), g))
        def counted(m, p):
            return [(x, c, q) for x, c, q in p.tg if c.id not in s.pinned]
        def arc_clone(m, th, a, g):
            arc = m.load_typed(a[0], g, ('Arc',))
            if not isinstance(arc, St): return POISON
            for x, c, q in counted(m, arc.f['p']):
                r = Ref([(TRUE, c, q + (('f', 'strong'),))]); m.store(r, Add(m.load(r, g), ONE), And(g, x))
            return arc
        T('Clone', 'clone', 'Arc', arc_clone)
        def arc_drop(m, th, a, g):
            arc = m.load_typed(a[0], g, ('Arc',))
            if not isinstance(arc, St): return UNIT
            alts = []
            for x, c, q in counted(m, arc.f['p']):
                gg = And(g, x)
                r = Ref([(TRUE, c, q + (('f', 'strong'),))]); n = Sub(m.load(r, gg), ONE)
                m.store(r, n, gg)
                last = restrict(Eq(n, ZERO), gg)
                data = Ref([(TRUE, c, q + (('f', 'data'),))])
                if last is not FALSE and not s.trivial(m, m.load(data, gg)):
                    alts.append((And(x, last), s.fn_drop_in_place, [data], 'arcdata:%d' % c.id))
            if not alts: return UNIT
            return Dispatch(alts + [(Not(Or(*[x for x, _, _, _ in alts])), s.nop, [], None)])
        R('__arc_drop', arc_drop)
        def arc_downgrade(m, th, a, g):
            arc = m.load_typed(a[0], g, ('Arc',))
            if not isinstance(arc, St): return POISON
            for x, c, q in arc.f['p'].tg:
                # ghost: the allocation has (had) Weak references, so its cell is never re-used for a later allocation of the same site
                m.store(Ref([(TRUE, c, q + (('f', 'weak'),))]), BV(2), And(g, x))
            return St('Weak', {'p': arc.f['p']})
        R('Arc::downgrade', arc_downgrade)
        R('__weak_drop', lambda m, th, a, g: UNIT)
        T('Clone', 'clone', 'Weak', lambda m, th, a, g: m.load(a[0], g))
        def weak_upgrade(m, th, a, g):
            w = m.load_typed(a[0], g, ('Weak',))
            if not isinstance(w, St):
                if m.debug: print('   upgrade of non-weak', w, a[0])
                return POISON
            out = None
            alive = FALSE
            for x, c, q in w.f['p'].tg:
                gg = And(g, x)
                if c.id in s.pinned: al = TRUE
                else:
                    r = Ref([(TRUE, c, q + (('f', 'strong'),))]); n = m.load(r, gg)
                    al = Ugt(n, ZERO)
                    m.store(r, Add(n, ONE), And(gg, al))
                alive = Or(alive, And(x, al))
            return En(OPT, Ite(alive, ONE, ZERO), {1: St(None, {0: St('Arc', {'p': w.f['p']})})})
        R('Weak::upgrade', weak_upgrade)
        def weak_strong(m, th, a, g):
            w = m.load_typed(a[0], g, ('Weak',))
            if not isinstance(w, St): return POISON
            out = ZERO
            for x, c, q in w.f['p'].tg:
                n = ONE if c.id in s.pinned else m.load(Ref([(TRUE, c, q + (('f', 'strong'),))]), g)
                out = Ite(x, n, out)
            return out
        R('Weak::strong_count Arc::strong_count', weak_strong)
        def arc_ptr_eq(m, th, a, g):
            x = m.load(a[0], g); y = m.load(a[1], g)
            if not (isinstance(x, St) and isinstance(y, St)): return POISON
            return ptr_eq(x.f['p'], y.f['p'])
        R('Arc::ptr_eq', arc_ptr_eq)
        # ---- Mutex / Condvar
        # unlocking a mutex that other threads try_lock is not a left-mover (a failed try_lock does not commute with it), so it
        # must be a scheduling point of its own.  desync only try_locks the pool threads' `busy: Mutex<bool>`; every
        # Mutex<bool> unlock is made visible (model and shim use the same rule).
        R('Mutex::new', lambda m, th, a, g: St('Mutex', {'locked': FALSE, 'poison': FALSE, 'data': a[0], 'vis': BoolC(isinstance(a[0], E) and a[0].sort == 'B')}))
        def lock_en(m, th, a, ph, g):
            l = m.load(m.typed_ref(a[0], g, ('Mutex',)).proj(('f', 'locked')), g)
            return Not(l) if isinstance(l, E) else FALSE
        def lock(m, th, a, g):
            mu = m.typed_ref(a[0], g, ('Mutex',))
            if m.debug: m.stats.setdefault('lockers', {})[repr(mu)] = (th.name, m.cur_site_name, show(g, 1)[:40])
            m.store(mu.proj(('f', 'locked')), TRUE, g)
            guard = St('MutexGuard', {'m': mu, 'pan': BoolC(bool(m.st is not None and m.st.unw))})
            po = m.load(mu.proj(('f', 'poison')), g)
            if po is FALSE or not isinstance(po, E): return Ok(guard)
            return En(RES, Ite(po, ONE, ZERO), {0: St(None, {0: guard}), 1: St(None, {0: St('PoisonError', {0: guard})})})
        R('Mutex::lock', lock, visible=True, enabled=lock_en)
        def try_lock(m, th, a, g):
            mu = m.typed_ref(a[0], g, ('Mutex',)); l = m.load(mu.proj(('f', 'locked')), g)
            if not isinstance(l, E): return POISON
            m.store(mu.proj(('f', 'locked')), TRUE, And(g, Not(l)))
            return En(RES, Ite(l, ONE, ZERO), {0: St(None, {0: St('MutexGuard', {'m': mu})}), 1: St(None, {0: En(TLE, ONE, {})})})
        R('Mutex::try_lock', try_lock, visible=True)
        def mutex_unlock(m, th, a, g):
            m.store(a[0].proj(('f', 'locked')), FALSE, g); return UNIT
        R('__mutex_unlock', mutex_unlock, visible=True)
        def guard_deref(m, th, a, g):
            gd = m.load_typed(a[0], g, ('MutexGuard',))
            if not isinstance(gd, St) or 'm' not in gd.f:
                if m.debug: print('GUARD_DEREF of', repr(gd)[:200], 'at', m.cur_site_name)
                return Ref([])
            return gd.f['m'].proj(('f', 'data'))
        T('Deref', 'deref', 'MutexGuard', guard_deref); T('DerefMut', 'deref_mut', 'MutexGuard', guard_deref)
        def cv_new(m, th, a, g):
            f = {}
            for t in range(m.nthreads_max):
                f['sleep%d' % t] = FALSE; f['note%d' % t] = FALSE
            f['lost'] = FALSE       # ghost: some notify on this condvar found nobody asleep (used to tell finding D3 from other hangs)
            return St('Condvar', f)
        R('Condvar::new', cv_new)
        def wait_en(m, th, a, ph, g):
            if ph == 0: return TRUE
            cv = a[0]; gd = a[1]
            note = m.load(cv.proj(('f', 'note%d' % th.tid)), g)
            l = m.load(gd.f['m'].proj(('f', 'locked')), g) if isinstance(gd, St) else FALSE
            if not isinstance(note, E) or not isinstance(l, E): return FALSE
            return And(note, Not(l))
        def wait(m, th, a, g, ph):
            cv = a[0]; gd = a[1]
            if not isinstance(gd, St): return POISON
            mu = gd.f['m']
            if ph == 0:
                th.sleep_at = Ite(g, BV(m.now), getattr(th, 'sleep_at', ZERO))     # ghost: when this thread last went to sleep on a condvar
                m.store(mu.proj(('f', 'locked')), FALSE, g)
                m.store(cv.proj(('f', 'sleep%d' % th.tid)), TRUE, g)
                m.store(cv.proj(('f', 'note%d' % th.tid)), FALSE, g)
                return None
            m.store(cv.proj(('f', 'sleep%d' % th.tid)), FALSE, g)
            m.store(cv.proj(('f', 'note%d' % th.tid)), FALSE, g)
            m.store(mu.proj(('f', 'locked')), TRUE, g)
            return Ok(gd)
        R('Condvar::wait', wait, visible=True, enabled=wait_en, phases=2)
        def notify(all_):
            def f(m, th, a, g):
                cv = a[0]; done = FALSE; nsleep = []
                for t in range(m.nthreads_max):
                    sl = m.load(cv.proj(('f', 'sleep%d' % t)), g); no = m.load(cv.proj(('f', 'note%d' % t)), g)
                    if not isinstance(sl, E) or sl is FALSE: continue
                    cand = And(sl, Not(no))
                    pick = cand if all_ else And(cand, Not(done))
                    m.store(cv.proj(('f', 'note%d' % t)), TRUE, And(g, pick))
                    if not all_:
                        m.oblige('bound', 'notify_one with more than one sleeper on one condvar', And(g, cand, done))
                    done = Or(done, cand)
                m.store(cv.proj(('f', 'lost')), TRUE, And(g, Not(done)))
                return UNIT
            return f
        R('Condvar::notify_one', notify(False), visible=True)
        R('Condvar::notify_all', notify(True), visible=True)
        # ---- threads
        R('thread::current current', lambda m, th, a, g: St('Thread', {'tid': BV(th.tid)}))
        T('Clone', 'clone', 'Thread', lambda m, th, a, g: m.load(a[0], g))
        def park_en(m, th, a, ph, g): return th.token
        def park(m, th, a, g):
            th.token = And(th.token, Not(g)); return UNIT
        R('thread::park park', park, visible=True, enabled=park_en)
        def unpark(m, th, a, g):
            h = m.load(a[0], g) if isinstance(a[0], Ref) else a[0]
            if not isinstance(h, St): return UNIT
            tid = h.f['tid']
            for t in m.threads:
                t.token = Or(t.token, And(g, Eq(tid, BV(t.tid))))
            return UNIT
        R('Thread::unpark', unpark, visible=True)
        R('thread::panicking panicking', lambda m, th, a, g: BoolC(bool(m.st is not None and m.st.unw)))
        R('Builder::new', lambda m, th, a, g: St('Builder', {}))
        R('Builder::name', lambda m, th, a, g: a[0])
        def spawn(m, th, a, g):
            clo = a[1]; n = m.nspawn
            tidv = BV(4000); ok = FALSE
            for t in m.threads:
                if not t.is_pool: continue
                gi = And(g, Eq(n, BV(t.pool_index)))
                if gi is FALSE: continue
                ok = Or(ok, gi)
                st0 = t.states.get(t.startkey)
                if st0 is None:
                    from .engine import State
                    st0 = State(t.rootcp, 'bb0', 'S', FALSE, {t.rootcp: {}}); t.states[t.startkey] = st0
                st0.set(t.rootcp, 1, merge(gi, clo, st0.get(t.rootcp, 1)))
                st0.g = Or(st0.g, gi)
                t.started = Or(t.started, gi)
                tidv = Ite(Eq(n, BV(t.pool_index)), BV(t.tid), tidv)
                m.census_spawn(t, gi)
            m.oblige('bound', 'more pool threads spawned than pool slots in the scenario', And(g, Not(ok)))
            m.nspawn = Ite(g, Add(n, ONE), n)
            return Ok(St('JoinHandle', {'tid': tidv}))
        R('Builder::spawn thread::spawn', spawn, visible=True)
        def finished_of(m, h, g):
            if not isinstance(h, St) or 'tid' not in h.f: return FALSE, FALSE
            fin = FALSE; pan = FALSE
            for t in m.threads:
                if not t.is_pool: continue
                e = Eq(h.f['tid'], BV(t.tid))
                fin = Or(fin, And(e, Or(t.finished, t.dead))); pan = Or(pan, And(e, t.dead))
            return fin, pan
        R('JoinHandle::is_finished', lambda m, th, a, g: finished_of(m, m.load(a[0], g), g)[0])
        def join_en(m, th, a, ph, g): return finished_of(m, a[0], g)[0]
        def join(m, th, a, g):
            fin, pan = finished_of(m, a[0], g)
            m.census_join(a[0], g)
            return En(RES, Ite(pan, ONE, ZERO), {0: St(None, {0: UNIT}), 1: St(None, {0: Opaque('panic payload')})})
        R('JoinHandle::join', join, visible=True, enabled=join_en)
        # ---- mpsc
        def channel(m, th, a, g):
            tg = []
            for cg, c in m.alloc_n(th, ('chan',) + m.cur_site, 'chan@' + m.cur_site_name, g):
                f = {'len': ZERO, 'senders': ONE, 'rx_alive': TRUE}
                for i in range(m.CAP): f[i] = None
                m.store(Ref.to(c), St('Chan', f), And(g, cg))
                tg.append((cg, c, ()))
            return St('tuple', {0: St('Sender', {'c': Ref(tg)}), 1: St('Receiver', {'c': Ref(list(tg))})})
        R('mpsc::channel', channel)
        def send(m, th, a, g):
            sd = m.load(a[0], g)
            if not isinstance(sd, St): return POISON
            ch = sd.f['c']
            alive = m.load(ch.proj(('f', 'rx_alive')), g)
            vec_push_back(m, ch, a[1], And(g, alive))
            return En(RES, Ite(alive, ZERO, ONE), {0: St(None, {0: UNIT}), 1: St(None, {0: St('SendError', {0: a[1]})})})
        R('mpsc::Sender::send', send, visible=True)
        def recv_en(m, th, a, ph, g):
            rc = m.load(a[0], g)
            if not isinstance(rc, St): return FALSE
            ch = rc.f['c']
            ln = m.load(ch.proj(('f', 'len')), g); sd = m.load(ch.proj(('f', 'senders')), g)
            dm = getattr(m, 'debug_model', None)
            if dm is not None and evaluate(g, dm): print('   RECV_EN len=%s senders=%s ch=%r' % (evaluate(ln, dm), evaluate(sd, dm), ch), show(sd, 3)[:300])
            return Or(Ugt(ln, ZERO), Eq(sd, ZERO))
        def recv(m, th, a, g):
            rc = m.load(a[0], g); ch = rc.f['c']
            n = m.load(ch.proj(('f', 'len')), g); has = Ugt(n, ZERO)
            v = vec_pop_front(m, ch, And(g, has))
            return En(RES, Ite(has, ZERO, ONE), {0: St(None, {0: payload(v, 1)}), 1: St(None, {0: St('RecvError', {})})})
        R('mpsc::Receiver::recv', recv, visible=True, enabled=recv_en)
        # ---- Option / Result
        def take(m, th, a, g):
            v = m.load(a[0], g); m.store(a[0], NoneV(), g); return v
        R('Option::take', take)
        def disc_is(k):
            def f(m, th, a, g):
                v = m.load(a[0], g) if isinstance(a[0], Ref) else a[0]
                if not isinstance(v, En): return POISON
                return Eq(v.disc, BV(k))
            return f
        R('Option::is_none', disc_is(0)); R('Option::is_some', disc_is(1)); R('Result::is_ok', disc_is(0)); R('Result::is_err', disc_is(1))
        R('Poll::is_ready', disc_is(0)); R('Poll::is_pending', disc_is(1))
        def unwrap_variant(k, what):
            def f(m, th, a, g):
                v = a[0]
                if not isinstance(v, En): return POISON
                bad = restrict(Ne(v.disc, BV(k)), g)
                val = payload(v, k)
                if bad is FALSE: return val
                return PanicIf(bad, val)
            return f
        R('Option::unwrap Option::expect', unwrap_variant(1, 'Option'))
        R('Result::unwrap Result::expect', unwrap_variant(0, 'Result'))
        def res_ok(m, th, a, g):
            v = a[0]
            if not isinstance(v, En): return POISON
            return En(OPT, Ite(Eq(v.disc, ZERO), ONE, ZERO), {1: St(None, {0: payload(v, 0)})})
        R('Result::ok', res_ok)
        def as_mut(m, th, a, g):
            v = m.load(a[0], g)
            if not isinstance(v, En): return POISON
            return En(OPT, v.disc, {1: St(None, {0: a[0].proj(('v', 1)).proj(('f', 0))})})
        R('Option::as_mut Option::as_ref', as_mut)
        # ---- the `?` operator on Option / Result  (ControlFlow: Continue = 0, Break = 1)
        CF = ('ControlFlow', None)
        def try_branch_opt(m, th, a, g):
            v = a[0]
            if not isinstance(v, En): return POISON
            return En(CF, Ite(Eq(v.disc, ONE), ZERO, ONE), {0: St(None, {0: payload(v, 1)}), 1: St(None, {0: NoneV()})})
        T('Try', 'branch', 'Option', try_branch_opt)
        def try_branch_res(m, th, a, g):
            v = a[0]
            if not isinstance(v, En): return POISON
            return En(CF, Ite(Eq(v.disc, ZERO), ZERO, ONE), {0: St(None, {0: payload(v, 0)}), 1: St(None, {0: Err(payload(v, 1))})})
        T('Try', 'branch', 'Result', try_branch_res)
        T('FromResidual', 'from_residual', 'Option', lambda m, th, a, g: NoneV())
        T('FromResidual', 'from_residual', 'Result', lambda m, th, a, g: a[0])
        # ---- mem
        def swap(m, th, a, g):
            x = m.load(a[0], g); y = m.load(a[1], g)
            m.store(a[0], y, g); m.store(a[1], x, g); return UNIT
        R('mem::swap', swap)
        def replace(m, th, a, g):
            x = m.load(a[0], g); m.store(a[0], a[1], g); return x
        R('mem::replace', replace)
        R('mem::forget', lambda m, th, a, g: UNIT)
        R('mem::transmute', ident)
        # ---- VecDeque / Vec
        def vec_new(m, th, a, g):
            f = {'len': ZERO}
            for i in range(m.CAP): f[i] = None
            return St('Vec', f)
        R('VecDeque::new Vec::new', vec_new)
        R('VecDeque::len Vec::len', lambda m, th, a, g: m.load(a[0].proj(('f', 'len')), g))
        R('VecDeque::is_empty Vec::is_empty', lambda m, th, a, g: Eq(m.load(a[0].proj(('f', 'len')), g), ZERO))
        R('VecDeque::push_back Vec::push', lambda m, th, a, g: (vec_push_back(m, a[0], a[1], g), UNIT)[1])
        R('VecDeque::push_front', lambda m, th, a, g: (vec_push_front(m, a[0], a[1], g), UNIT)[1])
        R('VecDeque::pop_front', lambda m, th, a, g: vec_pop_front(m, a[0], g))
        R('Vec::pop VecDeque::pop_back', lambda m, th, a, g: vec_pop_back(m, a[0], g))
        R('Vec::remove', lambda m, th, a, g: vec_remove(m, a[0], a[1], g))
        T('Deref', 'deref', 'Vec', ident); T('DerefMut', 'deref_mut', 'Vec', ident)
        # element access by position: Option<&T>
        def vec_at(which):
            def f(m, th, a, g):
                vec = a[0]
                n = m.load(vec.proj(('f', 'len')), g)
                if not isinstance(n, E): raise EncodeError('element access on a non-vector in %s' % m.cur_site_name)
                if which == 'first': idx = ZERO; has = Ugt(n, ZERO)
                elif which == 'last': idx = Sub(n, ONE); has = Ugt(n, ZERO)
                else: idx = a[1]; has = Ult(idx, n)
                elem = Ref(norm_refs([(And(x, restrict(Eq(idx, BV(k)), g)), c, p + (('f', k),)) for k in range(m.CAP) for x, c, p in vec.tg]))
                return En(OPT, Ite(has, ONE, ZERO), {1: St(None, {0: elem})})
            return f
        R('slice::first slice::first_mut VecDeque::front VecDeque::front_mut', vec_at('first'))
        R('slice::last slice::last_mut VecDeque::back VecDeque::back_mut', vec_at('last'))
        R('slice::get slice::get_mut VecDeque::get VecDeque::get_mut', vec_at('get'))
        R('slice::len', lambda m, th, a, g: m.load(a[0].proj(('f', 'len')), g))
        R('slice::is_empty', lambda m, th, a, g: Eq(m.load(a[0].proj(('f', 'len')), g), ZERO))
        R('VecDeque::iter VecDeque::iter_mut', lambda m, th, a, g: St('Iter', {'v': a[0], 'i': ZERO}))
        def opt_replace(m, th, a, g):
            old = m.load(a[0], g); m.store(a[0], Some(a[1]), g); return old
        R('Option::replace', opt_replace)
        def opt_copied(m, th, a, g):
            v = a[0]
            if not isinstance(v, En): return POISON
            inner = payload(v, 1)
            return En(OPT, v.disc, {1: St(None, {0: m.load(inner, And(g, Eq(v.disc, ONE))) if isinstance(inner, Ref) else inner})})
        R('Option::copied', opt_copied)
        def vec_index(m, th, a, g):
            vec = a[0]; idx = a[1]
            if not isinstance(idx, E): return Ref([])
            return Ref(norm_refs([(And(x, restrict(Eq(idx, BV(k)), g)), c, p + (('f', k),)) for k in range(m.CAP) for x, c, p in vec.tg]))
        T('Index', 'index', 'Vec', vec_index); T('IndexMut', 'index_mut', 'Vec', vec_index)
        R('slice::iter slice::iter_mut', lambda m, th, a, g: St('Iter', {'v': a[0], 'i': ZERO}))
        T('IntoIterator', 'into_iter', 'Vec', lambda m, th, a, g: St('IntoIter', {'v': a[0], 'i': ZERO}))
        def vec_drain_all(m, th, a, g):
            # drain(..) over the full range: the elements move into an owning iterator, the vector is left empty
            if 'RangeFull' not in (m.cur_callee or ''): raise EncodeError('Vec::drain is only modelled for the full range (..)')
            v = m.load(a[0], g)
            if not isinstance(v, St): return POISON
            m.store(a[0].proj(('f', 'len')), ZERO, g)
            return St('IntoIter', {'v': v, 'i': ZERO})
        R('Vec::drain VecDeque::drain', vec_drain_all)
        def iter_next(m, th, a, g):
            it = m.load(a[0], g)
            if not isinstance(it, St): return POISON
            vec = it.f['v']; i = it.f['i']
            n = m.load(vec.proj(('f', 'len')), g)
            if not isinstance(n, E): raise EncodeError('iter over non-vector %r in %s' % (vec, m.cur_site_name))
            has = Ult(i, n)
            elem = Ref(norm_refs([(And(x, Eq(i, BV(k))), c, p + (('f', k),)) for k in range(m.CAP) for x, c, p in vec.tg]))
            m.store(a[0].proj(('f', 'i')), Ite(has, Add(i, ONE), i), g)
            return En(OPT, Ite(has, ONE, ZERO), {1: St(None, {0: elem})})
        T('Iterator', 'next', 'Iter IterMut', iter_next)
        def into_iter_next(m, th, a, g):
            it = m.load(a[0], g)
            if not isinstance(it, St): return POISON
            vec = it.f['v']; i = it.f['i']
            if not isinstance(vec, St): return POISON
            n = vec.f['len']; has = Ult(i, n)
            out = None
            for k in reversed(range(m.CAP)): out = merge(Eq(i, BV(k)), vec.f.get(k), out)
            m.store(a[0].proj(('f', 'i')), Ite(has, Add(i, ONE), i), g)
            return En(OPT, Ite(has, ONE, ZERO), {1: St(None, {0: out})})
        T('Iterator', 'next', 'IntoIter', into_iter_next)
        # ---- atomics / ids
        def future_id_new(m, th, a, g):
            cur = getattr(m, 'next_future_id', ZERO)
            m.next_future_id = Ite(g, Add(cur, ONE), cur)
            return St('FutureId', {0: cur})
        R('FutureId::new', future_id_new)
        R('Atomic::new AtomicU64::new', lambda m, th, a, g: St('Atomic', {'v': a[0]}))
        def fetch_add(m, th, a, g):
            r = a[0].proj(('f', 'v')); old = m.load(r, g); m.store(r, Add(old, a[1]), g); return old
        R('Atomic::fetch_add AtomicU64::fetch_add', fetch_add)
        # ---- formatting / panics
        R('fmt::format format Arguments::new Arguments::new_const Argument::new_debug Argument::new_display to_string '
          'Formatter::write_str Formatter::debug_tuple_field1_finish', lambda m, th, a, g: Opaque('fmt'))
        R('rt::begin_panic begin_panic rt::panic_fmt panic_fmt panicking::panic core::panicking::panic', lambda m, th, a, g: PANIC)
        R('num_cpus::get', lambda m, th, a, g: BV(1))
        T('Ord', 'max', '*', lambda m, th, a, g: Ite(Ult(a[0], a[1]), a[1], a[0]))
        T('ToString', 'to_string', '*', lambda m, th, a, g: Opaque('string'))
        def vec_has(m, th, a, g):
            v = m.load(a[0], g); k = a[1]
            if isinstance(v, St) and v.ty == 'Vec': return Ult(k, v.f['len'])
            if isinstance(v, St) and v.ty == 'IntoIter' and isinstance(v.f.get('v'), St): return And(Uge(k, v.f['i']), Ult(k, v.f['v'].f['len']))
            return FALSE
        R('__vec_has', vec_has)
        R('__nop', lambda m, th, a, g: UNIT)
        s.nop = s.table['__nop']
        # drop_in_place as a tiny synthetic function: bb0: drop(*_1) -> bb1; bb1: return
        f = mp.Fn('__drop_in_place', '__drop_in_place'); f.params = ['*mut T']; f.origin = 'glue'
        b0 = mp.Blk(); b0.term = ('drop', ('deref', ('local', 1)), 'bb1', None)
        b1 = mp.Blk(); b1.term = ('return',)
        f.blocks = {'bb0': b0, 'bb1': b1}
        s.prog.add_fn(f); s.fn_drop_in_place = f
        f2 = mp.Fn('__drop_value', '__drop_value'); f2.params = ['T']; f2.origin = 'glue'
        c0 = mp.Blk(); c0.term = ('drop', ('local', 1), 'bb1', None)
        c1 = mp.Blk(); c1.term = ('return',)
        f2.blocks = {'bb0': c0, 'bb1': c1}
        s.prog.add_fn(f2); s.fn_drop_value = f2
        fu = mp.Fn('__unlock_visible_fn', '__unlock_visible_fn'); fu.params = ['&Mutex']; fu.origin = 'glue'
        u0 = mp.Blk(); u0.term = ('call', ('local', 2), '__mutex_unlock', [('copy', ('local', 1))], 'bb1', None)
        u1 = mp.Blk(); u1.term = ('return',)
        fu.blocks = {'bb0': u0, 'bb1': u1}
        s.prog.add_fn(fu); s.fn_unlock_visible = fu
        # box content drop followed by freeing the allocation: bb0: drop(*_1) -> bb1; bb1: __box_free(_1) -> bb2; bb2: return
        f3 = mp.Fn('__box_free_fn', '__box_free_fn'); f3.params = ['*mut T']; f3.origin = 'glue'
        d0 = mp.Blk(); d0.term = ('drop', ('deref', ('local', 1)), 'bb1', None)
        d1 = mp.Blk(); d1.term = ('call', ('local', 2), '__box_free', [('copy', ('local', 1))], 'bb2', None)
        d2 = mp.Blk(); d2.term = ('return',)
        f3.blocks = {'bb0': d0, 'bb1': d1, 'bb2': d2}
        s.prog.add_fn(f3); s.fn_box_free = f3
        R('ptr::drop_in_place', lambda m, th, a, g: Dispatch([(TRUE, f, [a[0]], None)]))
    def arc_pinned(s, callee):
        x = callee.replace('std::sync::', '').replace('scheduler::', '')
        return bool(re.search(r'Arc::<(job_queue::)?JobQueue>|Arc::<(core::)?SchedulerCore>|Arc::<Mutex<(std::collections::)?VecDeque<Arc<(job_queue::)?JobQueue>>>>|Arc::<(desync_scheduler::)?Scheduler>', x))

def _pin_target(m, pin, g):
    if isinstance(pin, Ref): pin = m.load(pin, g)
    if isinstance(pin, St) and pin.ty == 'Pin':
        v = pin.f[0]
        if isinstance(v, St) and v.ty == 'Box': return v.f['p']
        return v
    return pin

# ---- bounded vector helpers (St{'len', 0..CAP-1})
def vec_push_back(m, vec, val, g):
    n = m.load(vec.proj(('f', 'len')), g)
    if not isinstance(n, E): return
    for k in range(m.CAP):
        m.store(vec.proj(('f', k)), val, And(g, Eq(n, BV(k))))
    full = Uge(n, BV(m.CAP))
    m.oblige('bound', 'container capacity %d exceeded' % m.CAP, And(g, full))
    m.store(vec.proj(('f', 'len')), Ite(full, n, Add(n, ONE)), g)
def vec_push_front(m, vec, val, g):
    n = m.load(vec.proj(('f', 'len')), g)
    if not isinstance(n, E): return
    for k in reversed(range(1, m.CAP)):
        m.store(vec.proj(('f', k)), m.load(vec.proj(('f', k - 1)), g), And(g, Ugt(n, BV(k - 1))))
    m.store(vec.proj(('f', 0)), val, g)
    full = Uge(n, BV(m.CAP))
    m.oblige('bound', 'container capacity %d exceeded' % m.CAP, And(g, full))
    m.store(vec.proj(('f', 'len')), Ite(full, n, Add(n, ONE)), g)
def vec_pop_front(m, vec, g):
    n = m.load(vec.proj(('f', 'len')), g)
    if not isinstance(n, E): return POISON
    has = Ugt(n, ZERO)
    first = m.load(vec.proj(('f', 0)), g)
    gg = And(g, has)
    for k in range(m.CAP - 1):
        m.store(vec.proj(('f', k)), m.load(vec.proj(('f', k + 1)), g), And(gg, Ugt(n, BV(k + 1))))
    m.store(vec.proj(('f', 'len')), Ite(has, Sub(n, ONE), n), g)
    return En(OPT, Ite(has, ONE, ZERO), {1: St(None, {0: first})})
def vec_pop_back(m, vec, g):
    n = m.load(vec.proj(('f', 'len')), g)
    if not isinstance(n, E): return POISON
    has = Ugt(n, ZERO)
    out = None
    for k in reversed(range(m.CAP)): out = merge(Eq(n, BV(k + 1)), m.load(vec.proj(('f', k)), g), out)
    m.store(vec.proj(('f', 'len')), Ite(has, Sub(n, ONE), n), g)
    return En(OPT, Ite(has, ONE, ZERO), {1: St(None, {0: out})})
def vec_remove(m, vec, idx, g):
    n = m.load(vec.proj(('f', 'len')), g)
    if not isinstance(n, E) or not isinstance(idx, E): return POISON
    out = None
    for k in reversed(range(m.CAP)): out = merge(Eq(idx, BV(k)), m.load(vec.proj(('f', k)), g), out)
    ok = Ult(idx, n)
    for k in range(m.CAP - 1):
        m.store(vec.proj(('f', k)), m.load(vec.proj(('f', k + 1)), g), And(g, ok, Ule(idx, BV(k)), Ugt(n, BV(k + 1))))
    m.store(vec.proj(('f', 'len')), Ite(ok, Sub(n, ONE), n), g)
    bad = restrict(Not(ok), g)
    return out if bad is FALSE else PanicIf(bad, out)

# ------------------------------------------------------------------------------------------ futures: wakers, contexts, oneshot
TASK_VT_BASE = 100
def install_futures(s):
    R = s.reg; T = s.regt
    def vt_of(m, callee):
        mm = re.search(r'waker(?:_ref)?::<(.*)>$', callee)
        ty = typehead(mm.group(1)) if mm else '?'
        if ty not in s.waker_types: s.waker_types.append(ty)
        return BV(s.waker_types.index(ty))
    def waker(m, th, a, g):
        arc = a[0]
        if not isinstance(arc, St): return POISON
        return St('Waker', {'vt': vt_of(m, m.cur_callee), 'data': arc.f['p']})
    R('task::waker waker', waker)
    def waker_ref(m, th, a, g):
        arc = m.load(a[0], g)
        if not isinstance(arc, St): return POISON
        return St('WakerRef', {'w': St('Waker', {'vt': vt_of(m, m.cur_callee), 'data': arc.f['p']})})
    R('task::waker_ref waker_ref', waker_ref)
    T('Deref', 'deref', 'WakerRef', lambda m, th, a, g: a[0].proj(('f', 'w')))
    R('Context::from_waker', lambda m, th, a, g: St('Context', {'w': a[0]}))
    R('FutureObj::new', lambda m, th, a, g: St('FutureObj', {'p': a[0]}))
    def cx_waker(m, th, a, g):
        cx = m.load_typed(a[0], g, ('Context',))
        return cx.f['w'] if isinstance(cx, St) else Ref([])
    R('Context::waker', cx_waker)
    def counted(p): return [(x, c, q) for x, c, q in p.tg if c.id not in s.pinned]
    def waker_clone(m, th, a, g):
        w = m.load_typed(a[0], g, ('Waker',))
        if not isinstance(w, St): return POISON
        for x, c, q in counted(w.f['data']):
            r = Ref([(TRUE, c, q + (('f', 'strong'),))]); m.store(r, Add(m.load(r, g), ONE), And(g, x))
        return w
    T('Clone', 'clone', 'Waker', waker_clone)
    def wake_by_ref(m, th, a, g):
        w = m.load_typed(a[0], g, ('Waker',))
        if not isinstance(w, St) or 'vt' not in w.f: return Dispatch([(TRUE, None, a, None)])
        cs = cases(w.f['vt'])
        if cs is None: raise EncodeError('symbolic waker vtable')
        alts = []
        for k, cg in cs:
            cg = restrict(cg, g)
            if cg is FALSE: continue
            if k >= TASK_VT_BASE:
                alts.append((cg, m.prog.byname['prelude::task_wake'], [BV(k - TASK_VT_BASE)], 'task%d' % k)); continue
            ty = s.waker_types[k]
            f = m.prog.traitm.get(('ArcWake', ty, 'wake_by_ref'))
            if f is None: raise EncodeError('no ArcWake impl for ' + ty)
            tmp = m.alloc(th, ('wakearc', ty) + m.cur_site, 'wakearc_' + ty)
            data = w.f['data']
            if isinstance(data, Ref) and len(data.tg) > 1:
                keep = []
                for x, c, q in data.tg:
                    inner = m.getpath(c.val, q)
                    dv = inner.f.get('data') if isinstance(inner, St) else None
                    if isinstance(dv, St) and dv.ty == ty: keep.append((x, c, q))
                if keep: data = Ref(keep)
            m.store(Ref.to(tmp), St('Arc', {'p': data}), And(g, cg))
            alts.append((cg, f, [Ref.to(tmp)], 'wake:' + ty))
        return Dispatch(alts)
    R('Waker::wake_by_ref', wake_by_ref)
    def waker_drop(m, th, a, g):
        w = m.load_typed(a[0], g, ('Waker',))
        if not isinstance(w, St) or 'data' not in w.f: return UNIT
        tmp = m.alloc(th, ('wdrop',) + m.cur_site, 'wakerdrop')
        m.store(Ref.to(tmp), St('Arc', {'p': w.f['data']}), g)
        return s.table['__arc_drop'].apply(m, th, [Ref.to(tmp)], g)
    R('__waker_drop', waker_drop)
    # ---- futures::channel::oneshot (one atomic object per channel; its lock-free internals are assumed linearisable)
    def one_channel(m, th, a, g):
        tg = []
        for cg, c in m.alloc_n(th, ('oneshot',) + m.cur_site, 'oneshot@' + m.cur_site_name, g):
            m.store(Ref.to(c), St('Oneshot', {'val': NoneV(), 'tx_done': FALSE, 'rx_done': FALSE, 'rx_waker': NoneV(), 'tx_waker': NoneV()}), And(g, cg))
            tg.append((cg, c, ()))
        return St('tuple', {0: St('OneSender', {'c': Ref(tg)}), 1: St('OneReceiver', {'c': Ref(list(tg))})})
    R('oneshot::channel', one_channel)
    def one_send(m, th, a, g):
        sd = a[0]
        if not isinstance(sd, St): return POISON
        ch = sd.f['c']
        rxd = m.load(ch.proj(('f', 'rx_done')), g)
        ok = Not(rxd)
        m.store(ch.proj(('f', 'val')), Some(a[1]), And(g, ok))
        m.store(ch.proj(('f', 'tx_done')), TRUE, g)
        wk = m.load(ch.proj(('f', 'rx_waker')), g)
        m.store(ch.proj(('f', 'rx_waker')), NoneV(), g)
        res = En(RES, Ite(ok, ZERO, ONE), {0: St(None, {0: UNIT}), 1: St(None, {0: a[1]})})
        return St('tuple', {0: res, 1: wk})
    R('__oneshot_send', one_send, visible=True)
    def one_close(m, th, a, g):
        e = m.load(a[0], g)
        if not isinstance(e, St): return NoneV()
        ch = e.f['c']
        if e.ty == 'OneSender':
            was = m.load(ch.proj(('f', 'tx_done')), g)
            m.store(ch.proj(('f', 'tx_done')), TRUE, g)
            wk = m.load(ch.proj(('f', 'rx_waker')), g)
            m.store(ch.proj(('f', 'rx_waker')), NoneV(), And(g, Not(was)))
            if not isinstance(wk, En): return NoneV()
            return En(OPT, Ite(was, ZERO, wk.disc), wk.vars)
        m.store(ch.proj(('f', 'rx_done')), TRUE, g)
        return NoneV()
    R('__oneshot_close', one_close, visible=True)
    R('__oneshot_drop', lambda m, th, a, g: Dispatch([(TRUE, m.prog.byname['prelude::oneshot_drop'], [a[0]], None)]))
    def one_poll(m, th, a, g):
        # a[0]: Pin<&mut Receiver> or &mut Receiver ; a[1]: &mut Context
        r = a[0]
        if isinstance(r, St) and r.ty == 'Pin': r = r.f[0]
        rc = m.load(r, g)
        if not isinstance(rc, St): return POISON
        ch = rc.f['c']
        val = m.load(ch.proj(('f', 'val')), g); txd = m.load(ch.proj(('f', 'tx_done')), g)
        has = Eq(val.disc, ONE)
        cx = m.load(a[1], g)
        wk = m.load(cx.f['w'], g) if isinstance(cx, St) else POISON
        pend = And(g, Not(has), Not(txd))
        if isinstance(wk, St) and pend is not FALSE:
            for x, c, q in counted(wk.f['data']):
                rr = Ref([(TRUE, c, q + (('f', 'strong'),))]); m.store(rr, Add(m.load(rr, g), ONE), And(pend, x))
            m.store(ch.proj(('f', 'rx_waker')), Some(wk), pend)
        m.store(ch.proj(('f', 'val')), NoneV(), And(g, has))
        inner = En(RES, Ite(has, ZERO, ONE), {0: St(None, {0: payload(val, 1)}), 1: St(None, {0: St('Canceled', {})})})
        return En(POLL, Ite(Or(has, txd), ZERO, ONE), {0: St(None, {0: inner})})
    s.table[('nat', 'Future', 'OneReceiver', 'poll')] = None
    # futures::future::ready(v): a future that is Ready(v) at its first poll
    R('future::ready', lambda m, th, a, g: St('ReadyFut', {0: a[0]}))
    def ready_poll(m, th, a, g):
        v = m.load(a[0], g)
        return Ready(v.f.get(0)) if isinstance(v, St) else POISON
    s.table[('nat', 'Future', 'ReadyFut', 'poll')] = FnNative('Future::poll<ReadyFut>', ready_poll, False, None)
    R('__oneshot_poll', one_poll, visible=True)
Natives.install_futures = install_futures
