# Predicates describing recorded findings at formula level, so that a listed finding can be *excluded* from a query
# and the same oracle asked again: a different violation of the same property is then still reported.
from .expr import *
from .values import *
from .oracles import queue_core
from .engine import stack_slot

def blocked_at(w, fn_suffix, native_suffix, phase=None):
    """guards of all thread states stopped at visible call `native_suffix` inside function `fn_suffix`"""
    out = []
    for th in w.m.threads:
        for k, st in th.states.items():
            if k[2] in ('E', 'S'): continue
            cp, blk, ph = k
            if phase is not None and ph != phase: continue
            fn = w.m.fn_of(cp)
            if not fn.name.endswith(fn_suffix): continue
            t = fn.blocks[blk].term
            if t[0] == 'call' and native_suffix in t[2]: out.append(st.g)
    return Or(*out)

def p_sync_background_sleeps_on_claimable_queue(w):
    """D3: a sync caller sleeps in sync_background's condvar wait although its queue is Idle/Pending and non-empty, i.e. claimable,
    and every reschedule_queue of that queue (the only place waiters are told to steal it) ran BEFORE the caller went to sleep: by the
    finishing owner between the caller's strategy decision and its wait, or by the caller's own need_reschedule.  The steal
    notification is not sticky and sync_background never tries claim_pending_queue before its first wait.
    A caller that was ALREADY asleep when reschedule_queue ran for its queue and still sleeps (not registered, skipped by the
    notification loop, ...) is a different defect and does not match: the unchanged code notifies every live registered waiter."""
    m = w.m
    out = []
    for th in m.threads:
        for k, st in th.states.items():
            if k[2] != 1: continue
            cp, blk, ph = k
            fn = m.fn_of(cp)
            if not fn.name.endswith('::sync_background'): continue
            t = fn.blocks[blk].term
            if t[0] != 'call' or 'Condvar::wait' not in t[2]: continue
            m.cur = th; m.st = st
            qref = m.load(Ref.to(stack_slot(th.tid, st.cp, 2)), st.g)          # sync_background(&self, queue: &Arc<JobQueue>, ..)
            arc = m.load(qref, st.g) if isinstance(qref, Ref) else None
            if not isinstance(arc, St) or not isinstance(arc.f.get('p'), Ref): continue
            slept = getattr(th, 'sleep_at', ZERO)
            for x, c, p_ in arc.f['p'].tg:
                jq = m.load(Ref([(TRUE, c, p_ + (('f', 'data'),))]), TRUE)
                if not isinstance(jq, St): continue
                core = jq.f[0].f['data']
                stt, ln = core.f[1].disc, core.f[0].f['len']
                claimable = And(Or(Eq(stt, ZERO), Eq(stt, ONE)), Ugt(ln, ZERO))
                late = Ugt(w.resched_at.get(c.id, ZERO), slept)      # a reschedule of this queue after the caller fell asleep
                out.append(And(st.g, x, claimable, Not(late)))
    return Or(*out)

PREDICATES = {'sync_background_sleeps_on_claimable_queue': p_sync_background_sleeps_on_claimable_queue}
