# Predicates describing recorded findings at formula level, so that a listed finding can be *excluded* from a query
# and the same oracle asked again: a different violation of the same property is then still reported.
from .expr import *
from .values import *
from .oracles import queue_core

def blocked_at(w, fn_suffix, native_suffix, phase=None):
    """guards of all thread states stopped at visible call `native_suffix` inside function `fn_suffix`"""
    out = []
    for th in w.m.threads:
        for k, st in th.states.items():
            if k[2] in ('E', 'S'): continue
            cp, blk, ph = k
            if phase is not None and ph != phase: continue
            fn = w.m.fn_of(cp)
            if not fn.name.endswith(fn_suffix): continue
            t = fn.blocks[blk].term
            if t[0] == 'call' and native_suffix in t[2]: out.append(st.g)
    return Or(*out)

def p_sync_background_sleeps_on_claimable_queue(w):
    """a sync caller sleeps in sync_background's condvar wait although its queue is Idle/Pending, i.e. claimable
    (lost or never-sent steal notification; nobody else will run the queue)"""
    waiting = blocked_at(w, '::sync_background', 'Condvar::wait', phase=1)
    claimable = FALSE
    for q in range(w.scen.get('queues', 1)):
        st, ln, lk = queue_core(w, q)
        claimable = Or(claimable, And(Or(Eq(st, ZERO), Eq(st, ONE)), Ugt(ln, ZERO)))
    return And(waiting, claimable)

PREDICATES = {'sync_background_sleeps_on_claimable_queue': p_sync_background_sleeps_on_claimable_queue}
