# Parser for rustc's `-Zunpretty=mir` text: dump -> {name: [Fn]}.  Also used for the hand-written
# prelude (glue for std combinators) and for generated scenario bodies, which use the same syntax.
import re, glob, os

class Fn(object):
    def __init__(s, name, head):
        s.name = name; s.head = head; s.params = []; s.ret = ''; s.blocks = {}; s.cleanup = set()
        s.locals = {}           # local index -> declared type text
        s.key = None; s.rpo = None; s.origin = 'crate'
    def __repr__(s): return 'Fn(%s)' % s.name

class Blk(object):
    __slots__ = ('stmts', 'term')
    def __init__(s): s.stmts = []; s.term = None

def _depth_scan(s):
    d = 0
    for i, c in enumerate(s):
        if c in '([{': d += 1
        elif c in ')]}': d -= 1
        elif c == '<': d += 1
        elif c == '>' and not (i > 0 and s[i - 1] in '-='): d -= 1
        yield i, c, d

def split_top(s, sep=','):
    out = []; cur = []; d = 0
    for i, c in enumerate(s):
        if c in '([{': d += 1
        elif c in ')]}': d -= 1
        elif c == '<': d += 1
        elif c == '>' and not (i > 0 and s[i - 1] in '-='): d -= 1
        if c == sep and d == 0:
            out.append(''.join(cur).strip()); cur = []
        else: cur.append(c)
    t = ''.join(cur).strip()
    if t: out.append(t)
    return out

def find_top(s, ch):
    d = 0
    for i, c in enumerate(s):
        if c in '([{':
            if c == ch and d == 0: return i
            d += 1
        elif c in ')]}': d -= 1
        elif c == '<': d += 1
        elif c == '>' and not (i > 0 and s[i - 1] in '-='): d -= 1
    return -1

def find_top_str(s, pat):
    d = 0
    for i, c in enumerate(s):
        if c in '([{': d += 1
        elif c in ')]}': d -= 1
        elif c == '<': d += 1
        elif c == '>' and not (i > 0 and s[i - 1] in '-='): d -= 1
        elif d == 0 and s.startswith(pat, i): return i
    return -1

def strip_generics(x):
    """remove every <...> group (balanced), keeping `<impl at ..>` markers out of the way first"""
    out = []; d = 0
    for i, c in enumerate(x):
        if c == '<': d += 1; continue
        if c == '>' and not (i > 0 and x[i - 1] in '-='):
            d -= 1; continue
        if d == 0: out.append(c)
    return ''.join(out)

def parse_place(s):
    s = s.strip()
    if re.match(r'^_\d+$', s): return ('local', int(s[1:]))
    if s.startswith('*'): return ('deref', parse_place(s[1:]))
    if s.endswith(']') and not s.startswith('('):
        # _5[_6] style indexing
        i = s.rindex('[')
        return ('index', parse_place(s[:i]), parse_operand_or_local(s[i + 1:-1]))
    assert s[0] == '(' and s[-1] == ')', s
    inner = s[1:-1].strip()
    if inner[0] == '*': return ('deref', parse_place(inner[1:]))
    if inner[0] == '_':
        m = re.match(r'_\d+', inner); base = inner[:m.end()]; rest = inner[m.end():]
    else:
        d = 0; base = None
        for i, c in enumerate(inner):
            if c == '(': d += 1
            elif c == ')':
                d -= 1
                if d == 0: base = inner[:i + 1]; rest = inner[i + 1:]; break
        assert base is not None, s
    rest = rest.strip()
    if rest.startswith('as '): return ('downcast', parse_place(base), rest[3:].strip())
    m = re.match(r'\.(\d+):', rest); assert m, (s, rest)
    return ('field', parse_place(base), int(m.group(1)))

def parse_operand_or_local(s):
    s = s.strip()
    if re.match(r'^_\d+$', s): return ('copy', ('local', int(s[1:])))
    return parse_operand(s)

def parse_operand(s):
    s = s.strip()
    if s.startswith('no_retag '): s = s[9:]
    if s.startswith('copy '): return ('copy', parse_place(s[5:]))
    if s.startswith('move '): return ('move', parse_place(s[5:]))
    if s.startswith('const '): return ('const', s[6:].strip())
    return ('const', s)

BINOPS = ('Eq', 'Ne', 'Lt', 'Le', 'Gt', 'Ge', 'Add', 'Sub', 'Mul', 'BitAnd', 'BitOr', 'AddWithOverflow', 'SubWithOverflow',
          'Offset', 'AddUnchecked', 'SubUnchecked')
def parse_rvalue(s):
    s = s.strip()
    if s.startswith('no_retag '): s = s[9:]
    if s.startswith(('copy ', 'move ', 'const ')):
        i = find_top_str(s, ' as ')
        if i > 0:
            return ('cast', parse_operand(s[:i]), s[i + 4:])
        return ('use', parse_operand(s))
    if s.startswith('&raw mut '): return ('ref', parse_place(s[9:]))
    if s.startswith('&raw const '): return ('ref', parse_place(s[11:]))
    if s.startswith('&mut '): return ('ref', parse_place(s[5:]))
    if s.startswith('&'): return ('ref', parse_place(s[1:]))
    if s.startswith('discriminant('): return ('discr', parse_place(s[13:-1]))
    m = re.match(r'^([A-Za-z]+)\((.*)\)$', s)
    if m and m.group(1) in BINOPS:
        a, b = split_top(m.group(2)); return ('binop', m.group(1), parse_operand(a), parse_operand(b))
    if m and m.group(1) in ('Not', 'Neg'): return ('unop', m.group(1), parse_operand(m.group(2)))
    if s == '()': return ('tuple', [])
    if s.startswith('(') and s.endswith(')'):
        return ('tuple', [parse_operand(x) for x in split_top(s[1:-1])])
    if s.startswith('{closure@') or s.startswith('{coroutine@') or s.startswith('{async'):
        j = s.index('}') + 1; name = s[:j]; rest = s[j:].strip()
        if rest.startswith('{') and rest.endswith('}'):
            fs = split_top(rest[1:-1])
            return ('closure', name, [parse_operand(f.split(':', 1)[1]) for f in fs])
        if rest.startswith('(') and rest.endswith(')'):
            return ('closure', name, [parse_operand(x) for x in split_top(rest[1:-1])])
        return ('closure', name, [])
    i = find_top(s, '(')
    if i > 0 and s.endswith(')'):
        return ('agg', s[:i], [parse_operand(x) for x in split_top(s[i + 1:-1])])
    j = find_top(s, '{')
    if j > 0 and s.endswith('}'):
        fs = split_top(s[j + 1:-1])
        return ('agg', s[:j].strip(), [parse_operand(f.split(':', 1)[1]) for f in fs])
    return ('agg', s, [])       # unit variant / unit struct

def parse_targets(t):
    t = t.strip()
    m = re.match(r'\[return: (bb\d+), unwind(?:: (bb\d+)| continue| terminate\(\w+\)| unreachable)?\]', t)
    if m: return m.group(1), m.group(2)
    m = re.match(r'(bb\d+)$', t)
    if m: return m.group(1), None
    m = re.match(r'unwind(?:: (bb\d+)| continue| terminate\(\w+\)| unreachable)?', t)
    if m: return None, m.group(1)
    return None, None

def parse(text, origin='crate'):
    fns = {}
    text = text.split('// MIR FOR CTFE')[0] if origin == 'crate' else text
    for m in re.finditer(r'^(fn|const|static) ([^\n]*\{)\n(.*?)^\}\n', text, re.S | re.M):
        kind = m.group(1); head = m.group(2); body = m.group(3)
        if kind == 'static': continue
        if kind == 'const':
            if 'promoted[' not in head: continue
            name = head.split(': ', 1)[0] if ']: ' not in head else head[:head.index(']: ') + 1]
            f = Fn(name, head)
        else:
            i = find_top(head, '(')
            name = head[:i]
            f = Fn(name, head)
            # parameters
            d = 0; j = None
            for k in range(i, len(head)):
                c = head[k]
                if c in '([{<': d += 1
                elif c in ')]}' or (c == '>' and head[k - 1] not in '-='): d -= 1
                if d == 0: j = k; break
            params = head[i + 1:j]
            for p in split_top(params):
                mm = re.match(r'_(\d+): (.*)$', p, re.S)
                if mm: f.params.append(mm.group(2).strip())
            rest = head[j + 1:].strip()
            if rest.startswith('->'): f.ret = rest[2:].rstrip('{').strip()
        f.origin = origin
        cur = None
        for line in body.split('\n'):
            s = line.strip()
            mb = re.match(r'(bb\d+)( \(cleanup\))?: \{', s)
            if mb:
                cur = Blk(); f.blocks[mb.group(1)] = cur
                if mb.group(2): f.cleanup.add(mb.group(1))
                continue
            if cur is None:
                ml = re.match(r'let (?:mut )?_(\d+): (.*);$', s)
                if ml: f.locals[int(ml.group(1))] = ml.group(2)
                continue
            if not s or s == '}': continue
            if s.startswith(('StorageLive', 'StorageDead', 'nop', '//', 'FakeRead', 'PlaceMention', 'Retag', 'ConstEvalCounter', 'Coverage', 'AscribeUserType')): continue
            s = s.rstrip(';')
            if s.startswith('goto -> '): cur.term = ('goto', s[8:]); continue
            if s.startswith('switchInt('):
                i = s.index(') -> ['); op = parse_operand(s[10:i]); tg = s[i + 6:-1]
                arms = []; other = None
                for a in tg.split(', '):
                    k, v = a.split(': ')
                    if k == 'otherwise': other = v
                    else: arms.append((int(k), v))
                cur.term = ('switch', op, arms, other); continue
            if s in ('return', 'resume', 'unreachable') or s.startswith('unwind '):
                cur.term = (s.split(' ')[0],); continue
            if s.startswith('drop('):
                i = s.index(') -> '); r, u = parse_targets(s[i + 5:]); cur.term = ('drop', parse_place(s[5:i]), r, u); continue
            if s.startswith('assert('):
                i = s.rindex(' -> '); mm = re.search(r'success: (bb\d+)', s[i:])
                inner = s[7:i]
                cond = split_top(inner[:-1] if inner.endswith(')') else inner)[0]
                neg = cond.startswith('!')
                if neg: cond = cond[1:]
                cur.term = ('assert', parse_operand(cond), not neg, mm.group(1), inner); continue
            if ' -> ' in s and re.search(r'\) -> (\[return|bb\d+$|unwind)', s):
                i = s.rindex(') -> '); tg = s[i + 5:]; lhs = None; rhs = s[:i + 1]
                ie = find_top_str(rhs, ' = ')
                if ie > 0 and (rhs[0] == '_' or rhs[0] == '('): lhs = parse_place(rhs[:ie]); rhs = rhs[ie + 3:]
                j = find_top(rhs, '('); callee = rhs[:j]; args = [parse_operand(a) for a in split_top(rhs[j + 1:-1])]
                r, u = parse_targets(tg); cur.term = ('call', lhs, callee, args, r, u); continue
            mm = re.match(r'^discriminant\((.*)\) = (\d+)$', s)
            if mm: cur.stmts.append(('setdiscr', parse_place(mm.group(1)), int(mm.group(2)))); continue
            mm = re.match(r'^Deinit\((.*)\)$', s)
            if mm: continue
            i = find_top_str(s, ' = ')
            assert i > 0, (f.name, s)
            cur.stmts.append(('assign', parse_place(s[:i]), parse_rvalue(s[i + 3:])))
        fns.setdefault(name, []).append(f)
    return fns

# ---------------------------------------------------------------- enum declarations from source
STD_ENUMS = {('Option', None): ['None', 'Some'], ('Result', None): ['Ok', 'Err'], ('Poll', None): ['Ready', 'Pending'],
             ('TryLockError', None): ['Poisoned', 'WouldBlock'], ('Ordering', None): ['Relaxed', 'Release', 'Acquire', 'AcqRel', 'SeqCst'], ('ControlFlow', None): ['Continue', 'Break']}

def load_enums(srcdir):
    """{(EnumName, enclosing fn or None): [variant names in declaration order]}"""
    enums = dict(STD_ENUMS)
    for p in sorted(glob.glob(os.path.join(srcdir, 'src', '**', '*.rs'), recursive=True)):
        t = open(p).read()
        lines = t.split('\n')
        for m in re.finditer(r'^([ \t]*)(?:pub\s*(?:\([^)]*\))?\s*)?enum\s+(\w+)[^{;]*\{', t, re.M):
            indent = len(m.group(1).expandtabs(4)); name = m.group(2)
            # body: balanced braces
            i = m.end(); d = 1
            while d > 0:
                c = t[i]
                if c == '{': d += 1
                elif c == '}': d -= 1
                i += 1
            body = t[m.end():i - 1]
            body = re.sub(r'//[^\n]*', '', body)
            body = re.sub(r'/\*.*?\*/', '', body, flags=re.S)
            body = re.sub(r'#\[[^\]]*\]', '', body)
            vs = []
            for part in split_top(body):
                mm = re.match(r'\s*(\w+)', part)
                if mm: vs.append(mm.group(1))
            scope = None
            if indent > 0:
                ln = t[:m.start()].count('\n')
                for k in range(ln - 1, -1, -1):
                    mf = re.match(r'^([ \t]*)(?:pub\s*(?:\([^)]*\))?\s*)?(?:unsafe\s+)?fn\s+(\w+)', lines[k])
                    if mf and len(mf.group(1).expandtabs(4)) < indent:
                        scope = mf.group(2); break
            enums[(name, scope)] = vs
    return enums

def impl_self_types(fns, srcdir):
    """map `<impl at FILE:L:C: L:C>` markers to (trait or None, self type last segment) by reading the source line"""
    out = {}
    cache = {}
    for name in fns:
        for m in re.finditer(r'<impl at ([^:>]+):(\d+):(\d+): (\d+):(\d+)>', name):
            key = m.group(0)
            if key in out: continue
            path = m.group(1)
            if not path.startswith('/'): path = os.path.join(srcdir, path)
            if path not in cache:
                try: cache[path] = open(path).read().split('\n')
                except IOError: cache[path] = None
            L = cache[path]
            if L is None: out[key] = (None, None); continue
            l0 = int(m.group(2)) - 1; l1 = int(m.group(4)) - 1
            text = ' '.join(L[l0:l1 + 1])[int(m.group(3)) - 1:]
            # derive attribute: impl at points at `#[derive(PartialEq, ...)]` item -> col points into derive list
            mm = re.match(r'\s*(?:unsafe\s+)?impl\s*(<.*)?', text)
            if not mm:
                # derive: the word at the column is the trait; the type is the next struct/enum declared after this line
                tr = re.match(r'\s*(\w+)', text)
                ty = None
                for k in range(l0, min(l0 + 6, len(L))):
                    md = re.search(r'(?:struct|enum)\s+(\w+)', L[k])
                    if md: ty = md.group(1); break
                out[key] = (tr.group(1) if tr else None, ty); continue
            rest = text[text.index('impl') + 4:].strip()
            if rest.startswith('<'):
                d = 0
                for i, c in enumerate(rest):
                    if c == '<': d += 1
                    elif c == '>' and rest[i - 1] not in '-=':
                        d -= 1
                        if d == 0: rest = rest[i + 1:].strip(); break
            rest = re.split(r'\bwhere\b|\{', rest)[0].strip()
            tr = None
            i = find_top_str(rest, ' for ')
            if i > 0:
                tr = strip_generics(rest[:i]).strip().split('::')[-1]; rest = rest[i + 5:]
            ty = strip_generics(rest).strip().split('::')[-1]
            out[key] = (tr, ty)
    return out
