# MIRSEQ core: a merging symbolic interpreter for rustc MIR, driven as a bounded round-robin
# sequentialisation of the scenario's threads.  Thread-local state is merged per *position*
# (call path + basic block), the heap is one symbolic store updated in slot order, and the number of
# visible steps a thread takes in each slot is a solver variable.
import re, heapq, itertools
from .expr import *
from .values import *
from . import mirparse as mp

class EncodeError(Exception): pass

# ------------------------------------------------------------------------------------------ program
class Program(object):
    def __init__(s, fns, enums, impls):
        s.enums = enums; s.impls = impls
        s.fns = []; s.methods = {}; s.traitm = {}; s.free = {}; s.closures = {}; s.promoted = {}; s.byname = {}
        s.drops = {}
        for name, l in fns.items():
            for f in l: s.add_fn(f)
    def add_fn(s, f):
        f.key = len(s.fns); s.fns.append(f); s.byname[f.name] = f
        f.rpo = compute_rpo(f)
        name = f.name
        if 'promoted[' in name:
            m = re.search(r'((?:\w+::)?\{closure#\d+\}|\w+)::promoted\[(\d+)\]', mp.strip_generics(name))
            if m is None: raise EncodeError('unrecognised promoted constant name ' + name)
            s.promoted[(m.group(1), int(m.group(2)))] = f; return
        m = re.search(r'\{closure#\d+\}$', name)
        if m and f.params:
            mm = re.search(r'\{(?:closure|async block|async closure|coroutine|async fn body)@([^}]*)\}', f.params[0])
            if mm:
                s.closures[mm.group(1)] = f
                f.self_by_ref = f.params[0].lstrip().startswith('&') and 'Pin<' not in f.params[0]
            return
        m = re.search(r'(<impl at [^>]*>)::(\w+|r#\w+)$', name)
        if m:
            tr, ty = s.impls.get(m.group(1), (None, None))
            meth = m.group(2)
            if tr is None: s.methods[(ty, meth)] = f
            else:
                s.traitm[(tr, ty, meth)] = f
                if tr == 'Drop': s.drops[ty] = f
            return
        if '<impl at' in name or '{closure' in name: return
        s.free[name.split('::')[-1]] = f
        s.free[name] = f

def compute_rpo(f):
    order = []; seen = set()
    def succs(b):
        t = f.blocks[b].term
        k = t[0]
        if k == 'goto': return [t[1]]
        if k == 'switch': return [v for _, v in t[2]] + ([t[3]] if t[3] else [])
        if k == 'drop': return [x for x in (t[2], t[3]) if x]
        if k == 'call': return [x for x in (t[4], t[5]) if x]
        if k == 'assert': return [t[3]]
        return []
    if 'bb0' not in f.blocks: return {}
    stack = [('bb0', iter(succs('bb0')))]; seen.add('bb0')
    while stack:
        b, it = stack[-1]
        adv = False
        for x in it:
            if x not in seen and x in f.blocks:
                seen.add(x); stack.append((x, iter(succs(x)))); adv = True; break
        if not adv:
            order.append(b); stack.pop()
    order.reverse()
    rpo = {b: i for i, b in enumerate(order)}
    n = len(order)
    for b in f.blocks:
        if b not in rpo: rpo[b] = n; n += 1
    return rpo

_norm_cache = {}
def typehead(x):
    x = x.strip()
    while True:
        if x.startswith('&'): x = x[1:].lstrip()
        elif x.startswith('mut '): x = x[4:]
        elif x.startswith("'"): x = x.split(' ', 1)[1] if ' ' in x else x
        elif x.startswith('dyn '): x = x[4:]
        elif x.startswith('('): return 'tuple'
        else: break
    i = x.find('<')
    if i >= 0: x = x[:i]
    x = x.split(' ')[0]
    return x.split('::')[-1]

def norm_callee(c):
    r = _norm_cache.get(c)
    if r is not None: return r
    if c.startswith('<'):
        # <X as Trait>::method   (X may itself contain ' as ')
        d = 0; end = None
        for i, ch in enumerate(c):
            if ch == '<': d += 1
            elif ch == '>' and c[i - 1] not in '-=':
                d -= 1
                if d == 0: end = i; break
        inner = c[1:end]; rest = c[end + 1:]
        j = -1; d = 0
        for i, ch in enumerate(inner):
            if ch in '<([': d += 1
            elif ch in ')]' or (ch == '>' and inner[i - 1] not in '-='): d -= 1
            elif d == 0 and inner.startswith(' as ', i): j = i
        if j < 0:
            r = ('path', tuple(x for x in mp.strip_generics(c).split('::') if x), c)
        else:
            X = inner[:j]; T = inner[j + 4:]
            meth = mp.strip_generics(rest).split('::')
            meth = [m for m in meth if m][0]
            r = ('trait', typehead(T), meth, typehead(X), X)
    else:
        r = ('path', tuple(x for x in mp.strip_generics(c).split('::') if x), c)
    _norm_cache[c] = r
    return r

# ------------------------------------------------------------------------------------------ natives
class Native(object):
    """leaf model of a std/futures/scenario primitive.
       visible natives are scheduling points: `phases` steps, each with an enabling condition."""
    visible = False
    phases = 1
    name = '?'
    def enabled(s, m, th, args, phase, g): return TRUE
    def apply(s, m, th, args, g, phase=0): raise NotImplementedError

class FnNative(Native):
    def __init__(s, name, fn, visible=False, enabled=None, phases=1):
        s.name = name; s.fn = fn; s.visible = visible; s._en = enabled; s.phases = phases
    def enabled(s, m, th, args, phase, g):
        return s._en(m, th, args, phase, g) if s._en else TRUE
    def apply(s, m, th, args, g, phase=0):
        if s.phases > 1: return s.fn(m, th, args, g, phase)
        return s.fn(m, th, args, g)

class Slot(object):
    """a stack slot (local of one activation) used as the target of a reference"""
    __slots__ = ('tid', 'cp', 'idx', 'id', 'name')
    def __repr__(s): return 'Slot(t%d,_%d@%d)' % (s.tid, s.idx, len(s.cp))
_slot_tab = {}
def stack_slot(tid, cp, idx):
    k = (tid, cp, idx)
    r = _slot_tab.get(k)
    if r is None:
        r = Slot(); r.tid = tid; r.cp = cp; r.idx = idx; r.id = -1 - len(_slot_tab); r.name = 't%d_%d' % (tid, idx)
        _slot_tab[k] = r
    return r

class State(object):
    """one merged control state of a thread: position, guard and its own local environment"""
    __slots__ = ('cp', 'blk', 'phase', 'g', 'env', 'owned', 'lc', 'fg', 'unw')
    def __init__(s, cp, blk, phase, g, env):
        s.cp = cp; s.blk = blk; s.phase = phase; s.g = g; s.env = env; s.owned = set(env); s.lc = None; s.fg = None; s.unw = False
    def clone(s, g):
        n = State(s.cp, s.blk, s.phase, g, dict(s.env)); n.owned = set(); s.owned = set()
        if s.lc: n.lc = dict(s.lc)
        n.fg = s.fg; n.unw = s.unw
        return n
    def get(s, cp, idx):
        f = s.env.get(cp)
        return f.get(idx) if f is not None else None
    def set(s, cp, idx, v):
        f = s.env.get(cp)
        if f is None:
            f = {}; s.env[cp] = f; s.owned.add(cp)
        elif cp not in s.owned:
            f = dict(f); s.env[cp] = f; s.owned.add(cp)
        f[idx] = v
    @property
    def key(s): return (s.cp, s.blk, s.phase)

def merge_states(a, b):
    """merge state b into a (same position, exclusive guards)"""
    gb = b.g
    gfull = gb
    # any condition implied by b.g and refuted by a.g selects b's values equally well: prefer a single literal
    if gb.op == 'and' and a.g.op in ('and', 'var', 'not'):
        ca = conj(a.g)
        for lit in gb.args:
            n = neg_id(lit)
            if n is not None and n in ca: gb = lit; break
        else:
            if a.g.op == 'and':
                cb = conj(gfull)
                for lit in a.g.args:
                    n = neg_id(lit)
                    if n is not None and n in cb: gb = Not(lit); break
    for cp, fb in b.env.items():
        fa = a.env.get(cp)
        if fa is None:
            a.env[cp] = fb; a.owned.discard(cp); b.owned.discard(cp); continue
        if fa is fb: continue
        nf = None
        for idx, vb in fb.items():
            va = fa.get(idx)
            if va is vb: continue
            if nf is None:
                if cp in a.owned: nf = fa
                else:
                    nf = dict(fa); a.env[cp] = nf; a.owned.add(cp)
            nf[idx] = merge(gb, vb, va)
    a.g = Or(a.g, gfull)
    a.fg = None
    if b.lc:
        if not a.lc: a.lc = dict(b.lc)
        else:
            for k, v in b.lc.items():
                if a.lc.get(k, 0) < v: a.lc[k] = v
    return a

class Thread(object):
    def __init__(s, tid, name, root):
        s.tid = tid; s.name = name; s.root = root
        s.states = {}         # poskey -> State   (stopped at visible sites / start / END)
        s.finished = FALSE; s.panicked = FALSE; s.dead = FALSE
        s.token = FALSE       # park token
        s.started = FALSE
        s.is_pool = False; s.role = '?'; s.final = False
    def live(s):
        return any(k[2] != 'E' and st.g is not FALSE for k, st in s.states.items())

END = ('END', 'END', 'E')

class Machine(object):
    LOOPCAP = 6
    def __init__(s, prog, natives, cap=3):
        s.prog = prog; s.natives = natives; s.CAP = cap
        s.threads = []
        s.obligations = []      # (kind, text, guard): guard must be UNSAT
        s.violations = []       # (name, guard)
        s.allocs = {}
        s.nspawn = ZERO
        s.trace_sites = []      # (slot, step, tid, poskey, go, what) for decoding models
        s.stats = {'blocks': 0, 'stmts': 0, 'steps': 0, 'sites': set(), 'merges': 0}
        s.cur = None; s.st = None
        s.unwind_mode = False
        s.debug = False
        s.panics = []
        s.now = 0
        s.pruner = None
        import os as _os
        s.prune_merged = _os.environ.get('VERIF_PRUNE_MERGED', '0') == '1'; s.pending_checks = set()
        s.freed = {}            # heap cell id -> guard under which its Box allocation has been released
    # ---------------------------------------------------------------- helpers
    def oblige(s, kind, text, g):
        if g is FALSE: return
        s.obligations.append((kind, text, g))
    def violate(s, name, g):
        if g is FALSE: return
        s.violations.append((name, g))
    def alloc(s, th, key, name):
        k = (th.tid if th else -1,) + tuple(key)
        c = s.allocs.get(k)
        if c is None:
            c = Cell(None, name); s.allocs[k] = c
        return c
    MAXALLOC = 6
    def alloc_n(s, th, key, name, g, dead=None):
        """heap allocation at the current site: [(case guard, cell)].  One cell per (thread, site, instance index).  The number of
        instances this thread has in use (the next fresh index) lives in the executing state's own environment, so it is a constant
        along a path and only becomes a case split where paths with different histories were merged.  An earlier instance is re-used
        only if `dead(cell, guard)` shows *syntactically* that it has been released (Arc: strong count 0 and never downgraded; Box:
        freed); otherwise a fresh cell is taken.  Distinct live allocations of one site therefore never share a cell (before, a second
        Arc::new at the same site overwrote the first one's content while a clone of the first was still registered as a waker)."""
        st = s.st
        if st is None or th is None: return [(TRUE, s.alloc(th, key, name))]
        cnt = st.get('__alloc__', key)
        if cnt is None: cnt = ZERO
        cs = cases(cnt)
        if cs is None: raise EncodeError('allocation count is not a choice among constants')
        if len(cs) > 1: s.stats['alloc_split'] = s.stats.get('alloc_split', 0) + 1
        cell = lambda v: s.alloc(th, tuple(key) + ((('#', v),) if v else ()), name + ('#%d' % v if v else ''))
        out = []; newcnt = cnt
        for v, cg in cs:
            gg = And(g, cg)
            if gg is FALSE: continue
            # a second or later instance is rare in real executions but common under infeasible guards (e.g. the 'not started yet' arm
            # of a job that is run again in a loop): ask the solver before multiplying cells
            if v >= 1 and s.pruner is not None and not s.pruner.feasible(gg):
                s.stats['pruned'] = s.stats.get('pruned', 0) + 1; continue
            pick = None
            if dead is not None:
                for j in range(v):
                    if dead(cell(j), gg): pick = j; break
            if pick is None:
                pick = v
                if v >= s.MAXALLOC:
                    s.oblige('bound', 'more than %d live allocations of site %s by one thread' % (s.MAXALLOC, name), gg); continue
                newcnt = Ite(cg, BV(v + 1), newcnt) if len(cs) > 1 else BV(v + 1)     # state-local value: implicitly under the state's guard
                if v >= 1:
                    import os
                    if os.environ.get('VERIF_DEBUG_ALLOC'): print('  ALLOC %s instance %d by %s  (prev: %r)' % (name, v, th.name, s.load(Ref.to(cell(v - 1)), gg) if cell(v - 1).val is not None else None))
                s.stats['alloc_max'] = max(s.stats.get('alloc_max', 0), v + 1)
            out.append((cg if len(cs) > 1 else TRUE, cell(pick)))
        if newcnt is not cnt: st.set('__alloc__', key, newcnt)
        # two cases may pick the same cell: merge their guards
        merged = {}
        for cg, c in out: merged[c.id] = (Or(merged[c.id][0], cg), c) if c.id in merged else (cg, c)
        return list(merged.values())
    def fn_of(s, cp): return s.prog.fns[cp[-1][0]]
    # ---------------------------------------------------------------- memory
    def getpath(s, v, path):
        for i, (kind, x) in enumerate(path):
            if v is None or v is POISON: return v
            if isinstance(v, Mix):
                out = None
                for g, a in reversed(v.alts):
                    out = merge(g, s.getpath(a, path[i:]), out)
                return out
            if kind == 'f':
                if isinstance(v, St):
                    if v.ty == 'Box' and x == 0: v = St('Unique', {0: St('NonNull', {0: v.f['p']})})
                    else: v = v.f.get(x)
                elif isinstance(v, En):
                    up = v.vars.get('up')
                    v = up.f.get(x) if up is not None else None
                else: return POISON
            elif kind == 'v':
                if isinstance(v, En): v = v.vars.get(x)
                else: return POISON
        return v
    def setpath(s, v, path, val, g, strong=False):
        if not path: return val if strong else merge(g, val, v)
        kind, x = path[0]
        if isinstance(v, Mix):
            return Mix([(x2, s.setpath(a, path, val, And(g, x2), False)) for x2, a in v.alts])
        if kind == 'f':
            if isinstance(v, En):
                up = v.vars.get('up') or St(None, {})
                nv = dict(v.vars); nf = dict(up.f); nf[x] = s.setpath(up.f.get(x), path[1:], val, g, strong)
                nv['up'] = St(up.ty, nf); return En(v.ty, v.disc, nv)
            if not isinstance(v, St): v = St(None, {})
            if v.ty == 'Box' and x == 0: raise EncodeError('store through Box internals')
            nf = dict(v.f); nf[x] = s.setpath(v.f.get(x), path[1:], val, g, strong); return St(v.ty, nf)
        if not isinstance(v, En): v = En(None, ZERO, {})
        nv = dict(v.vars); nv[x] = s.setpath(v.vars.get(x), path[1:], val, g, strong); return En(v.ty, v.disc, nv)
    def slot_get(s, c):
        st = s.st
        if st is not None and c.tid == s.cur.tid:
            f = st.env.get(c.cp)
            if f is not None: return f.get(c.idx)
        out = None
        for o in s.threads[c.tid].states.values():
            f = o.env.get(c.cp)
            if f is not None and o.g is not FALSE: out = merge(o.g, f.get(c.idx), out)
        return out
    def slot_set(s, c, path, val, gg):
        st = s.st
        if st is not None and c.tid == s.cur.tid and c.cp in st.env:
            old = st.env[c.cp].get(c.idx)
            strong = gg is st.g
            st.set(c.cp, c.idx, s.setpath(old, path, val, gg, strong)); return
        for o in s.threads[c.tid].states.values():
            if c.cp in o.env and o.g is not FALSE:
                old = o.env[c.cp].get(c.idx)
                o.set(c.cp, c.idx, s.setpath(old, path, val, And(gg, o.g)))
    def load(s, ref, g=TRUE):
        if not isinstance(ref, Ref): return POISON
        tg = ref.tg
        if len(tg) == 1:
            c = tg[0][1]
            base = s.slot_get(c) if type(c) is Slot else c.val
            return shallow_restrict(s.getpath(base, tg[0][2]), g)
        out = None
        for x, c, p in reversed(tg):
            r = implied(g, x)
            if r is False: continue
            base = s.slot_get(c) if type(c) is Slot else c.val
            v = s.getpath(base, p)
            if r is True: return shallow_restrict(v, g)
            out = merge(x, v, out)
        return shallow_restrict(out, g)
    def load_typed(s, ref, g, tys):
        """load through a reference keeping only the targets whose value is a struct of one of the expected types: alternatives of
        another type can only be selected under an infeasible guard (typed pointers never alias differently typed storage)"""
        if not isinstance(ref, Ref): return None
        out = None
        for x, c, p in reversed(ref.tg):
            r = implied(g, x)
            if r is False: continue
            base = s.slot_get(c) if type(c) is Slot else c.val
            v = s.getpath(base, p)
            if isinstance(v, Mix):
                vv = None
                for y, a in reversed(v.alts):
                    if isinstance(a, St) and a.ty in tys: vv = merge(y, a, vv)
                v = vv
            if not (isinstance(v, St) and v.ty in tys): continue
            out = merge(x, v, out)
        return shallow_restrict(out, g) if out is not None else None
    def typed_ref(s, ref, g, tys):
        """the reference restricted to targets holding a struct of one of the expected types"""
        if not isinstance(ref, Ref): return Ref([])
        if len(ref.tg) <= 1: return ref
        tg = []
        for x, c, p in ref.tg:
            base = s.slot_get(c) if type(c) is Slot else c.val
            v = s.getpath(base, p)
            ok = (isinstance(v, St) and v.ty in tys) or (isinstance(v, Mix) and any(isinstance(a, St) and a.ty in tys for _, a in v.alts))
            if ok: tg.append((x, c, p))
        return Ref(tg) if tg else ref
    def store(s, ref, val, g):
        if g is FALSE or not isinstance(ref, Ref): return
        single = len(ref.tg) == 1
        for x, c, p in ref.tg:
            gg = g if (single and x is TRUE) else And(g, x)
            if gg is FALSE: continue
            if type(c) is Slot: s.slot_set(c, p, val, gg)
            else: c.val = s.setpath(c.val, p, val, gg)
    # ---------------------------------------------------------------- places and operands
    def variant_index(s, enumval, name):
        m = re.match(r'variant#(\d+)$', name)
        if m: return int(m.group(1))
        if isinstance(enumval, En) and enumval.ty is not None:
            vs = s.prog.enums.get(enumval.ty)
            if vs and name in vs: return vs.index(name)
        cands = set(vs.index(name) for k, vs in s.prog.enums.items() if name in vs)
        if len(cands) == 1: return cands.pop()
        raise EncodeError('cannot resolve variant %s (%r)' % (name, cands))
    def place_ref(s, st, p):
        k = p[0]
        if k == 'local': return Ref.to(stack_slot(s.cur.tid, st.cp, p[1]))
        g = st.g
        if k == 'deref':
            v = s.load(s.place_ref(st, p[1]), g)
            for _ in range(3):
                if isinstance(v, St) and v.ty == 'Box': v = v.f['p']
                elif isinstance(v, St) and v.ty in ('NonNull', 'Unique'): v = v.f[0]
            if isinstance(v, Mix):
                tg = []
                for x, a in v.alts:
                    if isinstance(a, St) and a.ty == 'Box': a = a.f['p']
                    if isinstance(a, Ref): tg += [(And(x, y), c, q) for y, c, q in a.tg]
                return Ref(norm_refs(tg))
            if isinstance(v, Ref): return restrict_val(v, g)
            return Ref([])
        if k == 'field':
            return s.place_ref(st, p[1]).proj(('f', p[2]))
        if k == 'downcast':
            r = s.place_ref(st, p[1])
            name = p[2]
            m = re.match(r'variant#(\d+)$', name)
            if m: return r.proj(('v', int(m.group(1))))
            v = s.load(r, g)
            return r.proj(('v', s.variant_index(v, name)))
        raise EncodeError('place ' + repr(p))
    def const(s, st, c):
        c = c.strip()
        if c == 'true': return TRUE
        if c == 'false': return FALSE
        m = re.match(r'^(-?\d+)(?:_?(?:usize|isize|u8|u16|u32|u64|u128|i8|i16|i32|i64|i128))?$', c)
        if m: return BV(int(m.group(1)))
        if c == '()': return UNIT
        if c.startswith('"') or c.startswith('b"'): return Opaque(c)
        if c.startswith('ZeroSized: '):
            t = c[11:]
            mm = re.search(r'\{(?:closure|async block|coroutine)@([^}]*)\}', t)
            if mm: return St('{closure@%s}' % mm.group(1), {})
            return St(typehead(t), {})
        if 'promoted[' in c:
            mm = re.search(r'((?:\w+::)?\{closure#\d+\}|\w+):+promoted\[(\d+)\]', mp.strip_generics(c))
            f = s.prog.promoted.get((mm.group(1), int(mm.group(2)))) if mm else None
            if f is None: raise EncodeError('promoted constant not found: ' + c)
            return s.eval_promoted(f)
        segs = [x for x in mp.strip_generics(c).split('::') if x]
        nc_ = getattr(s.prog, 'named_consts', {}).get(segs[-1]) if segs else None
        if nc_ is not None: return s.const(st, nc_)
        if len(segs) >= 2:
            en = s.find_enum(segs, st)
            if en is not None: return En(en[0], BV(en[1]), {})
        if re.match(r'^[A-Za-z_][\w:]*$', mp.strip_generics(c)):
            return St(segs[-1], {}) if segs[-1][0].isupper() else Opaque(c)
        return Opaque(c)
    def find_enum(s, segs, st=None):
        """segs ends with Enum, Variant?  -> ((Enum, scope), index) or None"""
        en = segs[-2]; var = segs[-1]
        scope = segs[-3] if len(segs) >= 3 else None
        fscope = None
        if st is not None:
            fscope = [x for x in re.sub(r'::\{closure#\d+\}', '', s.fn_of(st.cp).name).split('::') if x][-1]
        for key in ((en, scope), (en, fscope), (en, None)):
            vs = s.prog.enums.get(key)
            if vs is not None and var in vs: return key, vs.index(var)
        return None
    def eval_promoted(s, f):
        c = getattr(f, '_val', None)
        if c is not None: return c
        cp = ((f.key, None, 'promoted'),)
        st = State(cp, 'bb0', 0, TRUE, {cp: {}})
        # promoted temporaries live forever: evaluate once into heap cells
        saved = (s.cur, s.st)
        class _T: tid = 9999
        s.cur = _T; s.st = st
        if len(s.threads) <= 9999:
            pass
        b = f.blocks['bb0']
        # promoted bodies are `_1 = <const>; _0 = &_1; return`: evaluate _1 and box it in a heap cell
        val = None
        for stm in b.stmts:
            if stm[0] == 'assign' and stm[2][0] != 'ref':
                val = s.rvalue(st, stm[2]); cell = Cell(val, 'promoted:' + f.name[-30:])
        s.cur, s.st = saved
        f._val = Ref.to(cell)
        return f._val
    def operand(s, st, o):
        if o[0] == 'const': return s.const(st, o[1])
        return s.load(s.place_ref(st, o[1]), st.g)
    def rvalue(s, st, rv):
        k = rv[0]; g = st.g
        if k == 'use': return s.operand(st, rv[1])
        if k == 'ref': return s.place_ref(st, rv[1])
        if k == 'discr':
            v = s.load(s.place_ref(st, rv[1]), g)
            if isinstance(v, Mix):
                out = None
                for x, a in reversed(v.alts):
                    if isinstance(a, En): out = merge(x, a.disc, out)
                return out if out is not None else POISON
            if not isinstance(v, En): return POISON
            return restrict(v.disc, g)
        if k == 'binop':
            a = s.operand(st, rv[2]); b = s.operand(st, rv[3]); op = rv[1]
            if not (isinstance(a, E) and isinstance(b, E)):
                if op in ('Eq', 'Ne') and isinstance(a, Ref) and isinstance(b, Ref):
                    e = ptr_eq(a, b); return e if op == 'Eq' else Not(e)
                return POISON
            if a.sort != b.sort: return POISON
            if op == 'Eq': return Eq(a, b)
            if op == 'Ne': return Ne(a, b)
            if a.sort == 'B':
                if op == 'BitAnd': return And(a, b)
                if op == 'BitOr': return Or(a, b)
                return POISON
            if op == 'Lt': return Ult(a, b)
            if op == 'Le': return Ule(a, b)
            if op == 'Gt': return Ugt(a, b)
            if op == 'Ge': return Uge(a, b)
            if op in ('Add', 'AddUnchecked'): return Add(a, b)
            if op in ('Sub', 'SubUnchecked'): return Sub(a, b)
            if op == 'AddWithOverflow':
                r = Add(a, b); return St('tuple', {0: r, 1: Ult(r, a)})
            if op == 'SubWithOverflow':
                return St('tuple', {0: Sub(a, b), 1: Ult(a, b)})
            if op == 'Mul':
                if a.op == 'c' and b.op == 'c': return BV(a.val * b.val)
                raise EncodeError('symbolic multiplication')
            raise EncodeError('binop ' + op)
        if k == 'unop':
            a = s.operand(st, rv[2])
            if isinstance(a, E) and a.sort == 'B': return Not(a)
            return POISON
        if k == 'tuple': return St('tuple', {i: s.operand(st, o) for i, o in enumerate(rv[1])})
        if k == 'cast': return s.operand(st, rv[1])
        if k == 'closure':
            m = re.search(r'@([^}]*?)(?: \(#\d+\))?\}', rv[1])
            ops = {i: s.operand(st, o) for i, o in enumerate(rv[2])}
            if rv[1].startswith('{closure@'): return St('{closure@%s}' % m.group(1), ops)
            return En('{coroutine@%s}' % m.group(1), ZERO, {'up': St(None, ops)})
        if k == 'agg':
            segs = [x for x in mp.strip_generics(rv[1]).split('::') if x]
            ops = {i: s.operand(st, o) for i, o in enumerate(rv[2])}
            if len(segs) >= 2:
                en = s.find_enum(segs, st)
                if en is not None: return En(en[0], BV(en[1]), {en[1]: St(None, ops)})
            return St(segs[-1], ops)
        raise EncodeError('rvalue ' + repr(rv))
    def exec_stmt(s, st, stm):
        s.stats['stmts'] += 1
        g = st.g
        if stm[0] == 'assign':
            v = s.rvalue(st, stm[2])
            s.store(s.place_ref(st, stm[1]), v, g)
        else:   # setdiscr
            r = s.place_ref(st, stm[1])
            single = len(r.tg) == 1
            for x, c, p in r.tg:
                gg = g if (single and x is TRUE) else And(g, x)
                base = s.slot_get(c) if type(c) is Slot else c.val
                old = s.getpath(base, p)
                strong = type(c) is Slot and gg is g
                if isinstance(old, En): nv = En(old.ty, BV(stm[2]) if strong else Ite(gg, BV(stm[2]), old.disc), old.vars)
                else: nv = En(None, BV(stm[2]), {})
                nb = _replace(s, base, p, nv)
                if type(c) is Slot: s.slot_set(c, (), nb, g) if strong else s._slot_replace(c, nb)
                else: c.val = nb
    def _slot_replace(s, c, nb):
        st = s.st
        if c.tid == s.cur.tid and c.cp in st.env: st.set(c.cp, c.idx, nb)
        else:
            for o in s.threads[c.tid].states.values():
                if c.cp in o.env: o.set(c.cp, c.idx, nb)
    # ---------------------------------------------------------------- threads
    def add_thread(s, name, rootfn, args, started=TRUE):
        th = Thread(len(s.threads), name, rootfn)
        s.threads.append(th)
        cp = ((rootfn.key, None, None),)
        th.rootcp = cp
        th.startkey = (cp, 'bb0', 'S')
        th.states[th.startkey] = State(cp, 'bb0', 'S', started, {cp: {i + 1: a for i, a in enumerate(args)}})
        if started is TRUE: th.states[th.startkey].fg = TRUE
        th.started = started
        return th
    # ---------------------------------------------------------------- stepping
    def orderkey(s, cp, blk):
        k = []
        for i in range(1, len(cp)):
            f = s.prog.fns[cp[i - 1][0]]
            k.append(f.rpo.get(cp[i][1], 0)); k.append(cp[i][0]); k.append(str(cp[i][2]))
        f = s.prog.fns[cp[-1][0]]
        k.append(f.rpo.get(blk, 0)); k.append(-1); k.append('')
        return tuple(k)
    def push(s, st):
        if st.g is FALSE: return
        k = (st.cp, st.blk)
        old = s.wl.get(k)
        if old is None:
            s.wl[k] = st
            heapq.heappush(s.heap, (s.orderkey(st.cp, st.blk), next(s.tiebreak), k))
        else:
            s.stats['merges'] += 1
            merge_states(old, st)
    def stop_at(s, st, phase, check=True):
        if st.g is FALSE: return
        if check and s.pruner is not None and phase != 'E' and s.prune_merged:
            # feasibility is checked once per position after the arrivals of this step have been merged (end of step())
            st.phase = phase; st.lc = None
            k = st.key
            old = s.newstates.get(k)
            if old is None: s.newstates[k] = st
            else: merge_states(old, st)
            s.pending_checks.add(k)
            return
        if check and s.pruner is not None and phase != 'E':
            if s.only_budget_added(st):
                s.stats['prune_skipped'] = s.stats.get('prune_skipped', 0) + 1
            elif not s.pruner.feasible(st.g):
                s.stats['pruned'] = s.stats.get('pruned', 0) + 1
                if s.debug: kk = (s.fn_of(st.cp).name[-40:], st.blk, s.cur.name); s.stats.setdefault('pruned_at', {}); s.stats['pruned_at'][kk] = s.stats['pruned_at'].get(kk, 0) + 1
                return
            st.fg = st.g
        st.phase = phase; st.lc = None
        k = st.key
        old = s.newstates.get(k)
        if old is None: s.newstates[k] = st
        else: merge_states(old, st)
    def only_budget_added(s, st):
        """True if st.g is the last guard known feasible for this lineage plus budget literals only (those are free variables)"""
        fg = st.fg
        if fg is None: return False
        if fg is st.g: return True
        g = st.g
        if g.op != 'and': return g.act is not None and fg is TRUE
        base = conj(fg)
        for x in g.args:
            if x.id in base or x.act is not None: continue
            return False
        # every conjunct of fg must still be there (or be a weaker budget literal of the same slot)
        have = conj(g)
        for x in (fg.args if fg.op == 'and' else (fg,)):
            if x.id in have or x.act is not None: continue
            return False
        return True
    def site_native(s, cp, blk):
        t = s.fn_of(cp).blocks[blk].term
        if t[0] != 'call': raise EncodeError('position not at a call: %r' % (t,))
        return s.resolve_native(t[2]), t
    def step(s, th, act, slot=None, stepno=None):
        """one visible step of thread th under guard `act` (merged over all its states)"""
        s.cur = th; s.newstates = {}; s.wl = {}; s.heap = []; s.tiebreak = itertools.count(); s.visits = {}
        s.stats['steps'] += 1
        took = FALSE
        for poskey, st in list(th.states.items()):
            G = st.g
            if G is FALSE: continue
            if poskey[2] == 'E':
                s.stop_at(st, 'E', False); continue
            cp, blk, phase = poskey
            if phase == 'S':        # thread start: not a site; the first step runs up to the first site
                go = And(G, act)
                if go is not FALSE:
                    run = st.clone(go)
                    took = Or(took, go)
                    s.trace_sites.append((slot, stepno, th.tid, poskey, go, 'start'))
                    s.st = run; s.push(run)
                st.g = And(G, Not(act)); s.stop_at(st, 'S', False)
                continue
            nat, t = s.site_native(cp, blk)
            g0 = And(G, act)
            if g0 is FALSE:
                s.stop_at(st, phase, False); continue
            run = st.clone(g0)
            s.st = run
            args = [s.operand(run, a) for a in t[3]]
            en = nat.enabled(s, th, args, phase, g0)
            go = And(g0, en)
            st.g = And(G, Not(And(act, en))); s.stop_at(st, phase, False)
            if go is FALSE: continue
            run.g = go
            took = Or(took, go)
            s.stats['sites'].add((th.tid, poskey))
            s.trace_sites.append((slot, stepno, th.tid, poskey, go, nat.name))
            s.cur_site = (cp, blk); s.cur_site_name = '%s:%s' % (s.fn_of(cp).name.split('::')[-1][:20], blk); s.cur_callee = t[2]
            if phase + 1 < nat.phases:
                nat.apply(s, th, args, go, phase)
                s.stop_at(run, phase + 1)
            else:
                res = nat.apply(s, th, args, go, phase) if nat.phases > 1 else nat.apply(s, th, args, go)
                s.finish_call(th, run, t, res)
        s.run_worklist(th)
        if s.prune_merged and s.pending_checks:
            for k in s.pending_checks:
                v = s.newstates.get(k)
                if v is None or v.g is FALSE: continue
                if s.only_budget_added(v):
                    s.stats['prune_skipped'] = s.stats.get('prune_skipped', 0) + 1
                elif not s.pruner.feasible(v.g):
                    s.stats['pruned'] = s.stats.get('pruned', 0) + 1
                    del s.newstates[k]; continue
                v.fg = v.g
            s.pending_checks = set()
        th.states = {k: v for k, v in s.newstates.items() if v.g is not FALSE}
        s.st = None
        return took
    def finish_call(s, th, st, t, res):
        """store the result of a call terminator and continue at its return block"""
        s.st = st
        if res is PANIC:
            s.panic(th, st, t, st.g); return
        if isinstance(res, PanicIf):
            bad = And(st.g, res.cond)
            if bad is not FALSE:
                s.panic(th, st.clone(bad), t, bad)
                st.g = And(st.g, Not(res.cond))
            res = res.val
            if st.g is FALSE: return
        if t[1] is not None and res is not None:
            s.store(s.place_ref(st, t[1]), res, st.g)
        if t[4] is not None:
            st.blk = t[4]; s.push(st)
    def run_worklist(s, th):
        while s.heap:
            _, _, k = heapq.heappop(s.heap)
            st = s.wl.pop(k, None)
            if st is None or st.g is FALSE: continue
            s.visits[k] = s.visits.get(k, 0) + 1
            if st.lc is None: st.lc = {}
            n = st.lc.get(k, 0) + 1; st.lc[k] = n
            if n > 2 and s.pruner is not None and not s.pruner.feasible(st.g):
                s.stats['pruned'] = s.stats.get('pruned', 0) + 1; continue
            if n > s.LOOPCAP:
                s.oblige('unwind', 'loop bound %d exceeded at %s %s' % (s.LOOPCAP, s.fn_of(st.cp).name, st.blk), st.g); continue
            s.exec_block(th, st)
    def exec_block(s, th, st):
        s.stats['blocks'] += 1
        s.st = st
        fn = s.fn_of(st.cp)
        if s.debug: s.stats.setdefault('byfn', {}); s.stats['byfn'][fn.name[-60:]] = s.stats['byfn'].get(fn.name[-60:], 0) + 1
        b = fn.blocks[st.blk]
        if s.debug and getattr(s, 'trace_thread', None) == th.name and (getattr(s, 'debug_model', None) is None or evaluate(st.g, s.debug_model)): print('      [%s] %s %s  g=%s  term=%s' % (th.name, fn.name.split('::')[-1], st.blk, show(st.g, 1)[:60], (b.term[2][:70] if b.term[0] == 'call' else b.term[0])))
        for stm in b.stmts: s.exec_stmt(st, stm)
        t = b.term; k = t[0]; g = st.g
        dm = getattr(s, 'debug_model', None)
        if dm is not None and getattr(s, 'watch_fn', None) and fn.name.endswith(s.watch_fn) and evaluate(g, dm):
            print('   WATCH', fn.name[-30:], st.blk, {i: st.get(st.cp, i) for i in s.watch_locals})
        if k == 'goto': st.blk = t[1]; s.push(st)
        elif k == 'switch':
            v = s.operand(st, t[1])
            if not isinstance(v, E):
                s.oblige('junk', 'switch on non-scalar in %s %s' % (fn.name, st.blk), g); return
            succ = []
            taken = FALSE
            cs = consts(v) if v.sort == 'V' else None
            for val, tgt in t[2]:
                if v.sort == 'B': c = v if val else Not(v)
                else: c = Eq(v, BV(val))
                c0 = c
                c = restrict(c, g)
                dm = getattr(s, 'debug_model', None)
                if dm is not None and evaluate(g, dm) and evaluate(c0, dm) and not evaluate(And(g, c), dm):
                    print('   BAD ARM', fn.name[-40:], st.blk, val, 'c0', show(c0, 2)[:200], '| restricted', show(c, 2)[:100], '| and', show(And(g, c), 1)[:100], '| g', show(g, 2)[:300])
                succ.append((tgt, And(g, c))); taken = Or(taken, c)
            if t[3]:
                if cs is not None:
                    arms = set(val for val, _ in t[2])
                    rest = Or(*[restrict(x, g) for kk, x in cs.items() if kk not in arms])
                    succ.append((t[3], And(g, rest)))
                else: succ.append((t[3], And(g, Not(taken))))
            succ = [(b2, g2) for b2, g2 in succ if g2 is not FALSE]
            dm = getattr(s, 'debug_model', None)
            if dm is not None and evaluate(g, dm) and not any(evaluate(g2, dm) for _, g2 in succ): print('   DEAD SWITCH in', fn.name[-50:], st.blk, 'value', evaluate(v, dm), 'arms', t[2], t[3], 'consts', None if consts(v) is None else {k: evaluate(x, dm) for k, x in consts(v).items()}, 'eq', [evaluate(Eq(v, BV(k)), dm) for k in (0, 1, 2)], 'succ', [(b2, evaluate(g2, dm)) for b2, g2 in succ])
            for i, (b2, g2) in enumerate(succ):
                n = st if i == len(succ) - 1 else st.clone(g2)
                n.g = g2; n.blk = b2; s.push(n)
        elif k == 'return': s.do_return(th, st)
        elif k == 'call': s.do_call(th, st, t)
        elif k == 'drop': s.do_drop(th, st, t)
        elif k == 'assert':
            c = s.operand(st, t[1])
            if not isinstance(c, E) or c.sort != 'B':
                s.oblige('junk', 'assert on non-bool in %s' % fn.name, g); return
            ok = c if t[2] else Not(c)
            ok = restrict(ok, g)
            bad = And(g, Not(ok))
            if bad is not FALSE:
                if 'overflow' in t[4]: s.oblige('overflow', 'arithmetic overflow at width %d in %s' % (W, fn.name), bad)
                else: s.panic(th, st.clone(bad), t, bad, msg=t[4][:60])
            st.g = And(g, ok); st.blk = t[3]; s.push(st)
        elif k == 'unreachable':
            s.oblige('junk', 'unreachable reached in %s %s' % (fn.name, st.blk), g)
        elif k in ('resume', 'unwind'):
            s.do_resume(th, st)
        else: raise EncodeError('terminator ' + repr(t))
    def do_return(s, th, st):
        cp = st.cp; g = st.g
        if len(cp) == 1:
            th.finished = Or(th.finished, g)
            s.on_thread_exit(th, g)
            st.env = {}; st.owned = set(); st.cp, st.blk = END[0], END[1]
            s.stop_at(st, 'E')
            return
        ret = st.get(cp, 0)
        if isinstance(ret, E): ret = restrict(ret, g)
        cblk = cp[-1][1]; post = cp[-1][2]
        st.env.pop(cp, None); st.owned.discard(cp)
        st.cp = cp[:-1]; st.blk = cblk
        t = s.fn_of(st.cp).blocks[cblk].term
        if t[0] == 'call':
            s.finish_call(th, st, t, ret)
        elif t[0] == 'drop':
            if t[2] is not None: st.blk = t[2]; s.push(st)
        else: raise EncodeError('return into ' + repr(t))
    def on_thread_exit(s, th, g): pass
    # ---------------------------------------------------------------- calls
    def resolve_native(s, callee):
        r = s.natives.cache.get(callee)
        if r is None:
            r = s.natives.lookup(callee); s.natives.cache[callee] = r if r is not None else False
        return r or None
    def do_call(s, th, st, t):
        callee = t[2]; g = st.g
        if callee.startswith('__direct:'):
            args = [s.operand(st, a) for a in t[3]]
            s.enter_fn(th, st, s.prog.fns[int(callee[9:])], args, None); return
        nat = s.resolve_native(callee)
        if nat is not None:
            if nat.visible:
                s.stop_at(st, 0); return
            args = [s.operand(st, a) for a in t[3]]
            s.cur_site = (st.cp, st.blk); s.cur_site_name = '%s:%s' % (s.fn_of(st.cp).name.split('::')[-1][:20], st.blk); s.cur_callee = callee
            res = nat.apply(s, th, args, g)
            if isinstance(res, Dispatch):
                s.dispatch(th, st, t, res); return
            s.finish_call(th, st, t, res); return
        args = [s.operand(st, a) for a in t[3]]
        s.cur_site = (st.cp, st.blk); s.cur_site_name = '%s:%s' % (s.fn_of(st.cp).name.split('::')[-1][:20], st.blk); s.cur_callee = callee
        nc = norm_callee(callee)
        tgt = s.resolve_mir(nc, args, g)
        s.dispatch(th, st, t, tgt)
    def resolve_mir(s, nc, args, g):
        """-> Dispatch (list of (guard, Fn or Native, args, altkey))"""
        P = s.prog
        if nc[0] == 'path':
            segs = nc[1]
            f = None
            if len(segs) >= 2: f = P.methods.get((segs[-2], segs[-1]))
            if f is None:
                for k in range(len(segs), 0, -1):
                    f = P.free.get('::'.join(segs[-k:]))
                    if f is not None: break
            if f is None: raise EncodeError('no model and no MIR for call to ' + nc[2])
            return Dispatch([(TRUE, f, args, None)])
        _, trait, meth, thead, X = nc
        f = P.traitm.get((trait, thead, meth)) or P.traitm.get((trait, '*', meth))
        if f is not None: return Dispatch([(TRUE, f, args, None)])
        return s.natives.dynamic(s, trait, meth, thead, args, g, X)
    def dispatch(s, th, st, t, disp):
        g = st.g
        alts = [(And(g, ag), target, args, alt) for ag, target, args, alt in disp.alts]
        alts = [a for a in alts if a[0] is not FALSE]
        for i, (gg, target, args, alt) in enumerate(alts):
            n = st if i == len(alts) - 1 else st.clone(gg)
            n.g = gg
            s.st = n
            if isinstance(target, mp.Fn):
                s.enter_fn(th, n, target, args, alt)
            elif isinstance(target, Native):
                if target.visible: raise EncodeError('dynamic dispatch to visible native ' + target.name)
                res = target.apply(s, th, args, gg)
                if isinstance(res, Dispatch): s.dispatch(th, n, t, res)
                else: s.finish_call(th, n, t, res)
            elif target is None:
                s.oblige('junk', 'call with undispatchable receiver: %s in %s' % (t[2][:80], s.fn_of(st.cp).name), gg)
            else: raise EncodeError('dispatch target ' + repr(target))
    def enter_fn(s, th, st, f, args, alt=None):
        for suffix, cb in getattr(s, 'enter_hooks', ()):
            if f.name.endswith(suffix): cb(th, st, f, args, st.g)
        ncp = st.cp + ((f.key, st.blk, alt),)
        if len(ncp) > 60: raise EncodeError('call depth')
        np_ = len(f.params)
        if np_ and len(args) != np_:
            if len(args) == 2 and isinstance(args[1], St) and args[1].ty in ('tuple', '()'):
                args = [args[0]] + [args[1].f[i] for i in sorted(args[1].f)]     # rust-call ABI: untuple
            if len(args) != np_: raise EncodeError('arity %s: %d vs %d' % (f.name, len(args), np_))
        st.env[ncp] = {i + 1: a for i, a in enumerate(args)}; st.owned.add(ncp)
        st.cp = ncp; st.blk = 'bb0'
        s.push(st)
    # ---------------------------------------------------------------- drops
    def do_drop(s, th, st, t):
        ref = s.place_ref(st, t[1])
        todo = s.natives.drop_plan(s, th, ref, st.g)
        g = st.g
        rest = g
        alts = []
        for ag, f, args, alt in todo:
            gg = And(g, ag)
            if gg is FALSE: continue
            alts.append((gg, f, args, alt)); rest = And(rest, Not(ag))
        for gg, f, args, alt in alts:
            # deep drop glue (e.g. along a reference cycle whose counts can never reach zero): ask the solver before descending further,
            # syntactic recursion through "count reached zero" arms that are infeasible would otherwise hit the call-depth limit
            if len(st.cp) > 24 and s.pruner is not None and not s.pruner.feasible(gg):
                s.stats['pruned'] = s.stats.get('pruned', 0) + 1; continue
            n = st.clone(gg)
            s.st = n
            s.enter_fn(th, n, f, args, alt)
        if t[2] is not None and rest is not FALSE:
            st.g = rest; st.blk = t[2]; s.st = st; s.push(st)
    # ---------------------------------------------------------------- panics
    def panic(s, th, st, t, g, msg=''):
        if g is FALSE: return
        fn = s.fn_of(st.cp)
        where = '%s: %s' % (fn.name.split('>::')[-1], msg or (t[2][:50] if t[0] == 'call' else t[0]))
        th.panicked = Or(th.panicked, g)
        s.panics.append((th.tid, where, g))
        if s.unwind_mode:
            if st.unw:
                s.violate('panic-while-unwinding:t%d:%s' % (th.tid, where), g); th.dead = Or(th.dead, g); return
            st.g = g; st.unw = True
            tgt = None
            if t[0] == 'call': tgt = t[5] or (t[4] if t[4] in fn.cleanup else None)
            elif t[0] == 'drop': tgt = t[3]
            cur = s.st
            if tgt is not None:
                st.blk = tgt; s.push(st)
            else: s.unwind_pop(th, st)
            s.st = cur
            return
        # thread dies here (no unwinding modelled): it never reaches another site
        th.dead = Or(th.dead, g)
    def unwind_pop(s, th, st):
        """continue unwinding in the caller: pop frames until one has a cleanup target for the call in progress"""
        while True:
            cp = st.cp
            if len(cp) == 1:
                th.dead = Or(th.dead, st.g)
                s.on_thread_exit(th, st.g)
                return
            cblk = cp[-1][1]
            st.env.pop(cp, None); st.owned.discard(cp)
            st.cp = cp[:-1]; st.blk = cblk
            fn = s.fn_of(st.cp)
            t = fn.blocks[cblk].term
            tgt = None
            if t[0] == 'call': tgt = t[5] or (t[4] if t[4] in fn.cleanup else None)
            elif t[0] == 'drop': tgt = t[3]
            if tgt is not None:
                st.blk = tgt; s.push(st); return
    def do_resume(s, th, st):
        if not s.unwind_mode: raise EncodeError('unwinding not enabled')
        s.unwind_pop(th, st)

def _replace(s, v, path, nv):
    """unconditional replacement of the value at path (used for discriminant writes, guard already folded in)"""
    if not path: return nv
    kind, x = path[0]
    if kind == 'f':
        if isinstance(v, En):
            up = v.vars.get('up') or St(None, {})
            nvv = dict(v.vars); nf = dict(up.f); nf[x] = _replace(s, up.f.get(x), path[1:], nv)
            nvv['up'] = St(up.ty, nf); return En(v.ty, v.disc, nvv)
        if isinstance(v, Mix): return Mix([(g, _replace(s, a, path, nv)) for g, a in v.alts])
        if not isinstance(v, St): v = St(None, {})
        nf = dict(v.f); nf[x] = _replace(s, v.f.get(x), path[1:], nv); return St(v.ty, nf)
    if isinstance(v, Mix): return Mix([(g, _replace(s, a, path, nv)) for g, a in v.alts])
    if not isinstance(v, En): v = En(None, ZERO, {})
    nvv = dict(v.vars); nvv[x] = _replace(s, v.vars.get(x), path[1:], nv); return En(v.ty, v.disc, nvv)

def _why(e, d=0):
    if not isinstance(e, E) or e.op == 'c': return
    if e.op != 'ite': print(' ' * d, 'LEAF', e.op, show(e, 3)[:160]); return
    print(' ' * d, 'ite cs=', None if not e._cs else sorted(e._cs), 'raw', e._cs is False)
    if consts(e) is None:
        _why(e.args[1], d + 2); _why(e.args[2], d + 2)

def shallow_restrict(v, g):
    if g is TRUE or v is None: return v
    if isinstance(v, E): return restrict(v, g)
    if isinstance(v, St):
        ch = None
        for k, x in v.f.items():
            if isinstance(x, (E, Ref)):
                y = restrict_val(x, g)
                if y is not x:
                    if ch is None: ch = dict(v.f)
                    ch[k] = y
        return St(v.ty, ch) if ch is not None else v
    if isinstance(v, En):
        d = restrict(v.disc, g)
        return En(v.ty, d, v.vars) if d is not v.disc else v
    if isinstance(v, (Ref, Mix)): return restrict_val(v, g)
    return v

def _ambig(name, cands): raise EncodeError('ambiguous variant %s %r' % (name, cands))

def ptr_eq(a, b):
    out = FALSE
    for ga, ca, pa in a.tg:
        for gb, cb, pb in b.tg:
            if ca is cb and pa == pb: out = Or(out, And(ga, gb))
    return out

class Dispatch(object):
    def __init__(s, alts): s.alts = alts
class _Panic(object): pass
PANIC = _Panic()
class PanicIf(object):
    def __init__(s, cond, val): s.cond = cond; s.val = val
