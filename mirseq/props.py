# Scenario families, bounds and oracles per property and tier.
import itertools

ASSUMPTIONS = [
    'sequentially consistent memory; every shared access of desync is behind a Mutex, an atomic id counter or a modelled primitive',
    'native models (trusted): std Mutex/MutexGuard (no poisoning unless a panic unwinds), Condvar without spurious wake-ups, thread park/unpark (one token), '
    'Builder::spawn/JoinHandle, mpsc channel (FIFO), Arc/Weak counts, Box, Option/Result combinators, Vec/VecDeque as length + CAP slots, AtomicU64 ids',
    'futures: oneshot channel as one atomic object (its lock-free internals assumed linearisable), Waker/ArcWake dispatch to the real wake_by_ref MIR, Context',
    'lazy_static SCHEDULER replaced by an eagerly built Scheduler::new() whose initial_max_threads() returns the scenario pool maximum',
    'Arc<JobQueue>, Arc<SchedulerCore>, the schedule Arc and Arc<Scheduler> are pinned (the harness keeps a reference for the whole run)',
    'context switches only immediately before visible operations (lock, try_lock, wait, notify, park, unpark, send, recv, spawn, join, oneshot ops, harness events); '
    'code between two visible operations is thread-local or protected by the locks held',
    'fmt/format! bodies are empty; panics of library code end the thread (no unwinding) outside the C15 scenarios',
    'outside the claim: schedules needing more rounds than R or more steps per slot than B, containers above CAP, more threads/operations than the scenarios, weak memory, allocation failure',
]

def T(name, *ops, **kw):
    d = {'name': name, 'ops': list(ops)}; d.update(kw); return d

def S(name, threads, pool_max=0, queues=1, R=3, B=14, oracles=(), order=None, pool_slots=None, cap=3, witness=None, seq=None, setup=None):
    sc = {'name': name, 'pool_max': pool_max, 'queues': queues, 'threads': threads}
    if pool_slots is not None: sc['pool_slots'] = pool_slots
    if setup is not None:
        # a deterministic set-up prefix ('A! P0!': each named thread runs until it blocks or finishes) followed by R generic rounds over all threads
        names = [t['name'] for t in threads if not t.get('final')] + ['P%d' % i for i in range(pool_slots if pool_slots is not None else pool_max)]
        seq = setup.split() + R * names
        setup_info = (setup.split(), names, R)
    if seq is not None:
        seq = seq.split() if isinstance(seq, str) else list(seq); R = len(seq)
    bounds = {'R': R, 'B': B, 'CAP': cap, 'threads': len(threads) + (pool_slots if pool_slots is not None else pool_max), 'pool_max': pool_max}
    if seq is not None: bounds = dict(bounds, R='explicit slot sequence', slot_sequence=' '.join(seq))
    if setup is not None: bounds['setup'] = 'deterministic prefix %s (each thread runs until it blocks or finishes), then round-robin rounds over all threads' % setup
    elif order is not None: bounds['thread_order'] = order
    d = {'name': name, 'scen': sc, 'R': R, 'B': B, 'oracles': list(oracles), 'order': order, 'seq': seq, 'cap': cap, 'witness': witness, 'bounds': bounds}
    if setup is not None: d['setup_info'] = setup_info
    return d

BASE = ('panic', 'overlap', 'ran_twice')

def scenarios(prop, tier, seed=0):
    return rotate_orders(_scenarios(prop, tier, seed), seed)

def _scenarios(prop, tier, seed=0):
    q = tier == 'quick'
    L = []
    GATE = {'acts': ['enter', ('gate', 0), 'exit']}
    if prop == 'C09':
        L.append(S('c09_p0_sync_try_desync', [T('A', ('sync', 0)), T('B', ('try_sync', 0)), T('C', ('desync', 0)), T('Z', ('sync', 0), final=True)],
                   pool_max=0, R=3, B=12, oracles=BASE + ('results', 'deadlock', 'order')))
        L.append(S('c09_p0_try_try_sync', [T('A', ('try_sync', 0)), T('B', ('try_sync', 0)), T('C', ('sync', 0)), T('Z', ('try_sync', 0, {'probe': True}), final=True)],
                   pool_max=0, R=3, B=12, oracles=BASE + ('results', 'deadlock', 'final_try_sync')))
        L.append(S('c09_p1_desync_try', [T('A', ('desync', 0)), T('B', ('try_sync', 0))],
                   pool_max=1, R=3, B=14, oracles=BASE + ('results', 'deadlock', 'quiescent_complete', 'order')))
        L.append(S('c09_p1_try_desync_try', [T('A', ('try_sync', 0), ('desync', 0)), T('B', ('try_sync', 0))],
                   pool_max=1, R=3, B=14, oracles=BASE + ('results', 'deadlock', 'quiescent_complete')))
        if q: L += state_matrix('C09', lambda st, k, P: BASE + ('results', 'deadlock', 'order') + (('quiescent_complete',) if P else ()), want=lambda st, k: k == 'try', R=3)
        if not q:
            L.append(S('c09_p0_stale_wake_try', [T('A', ('future_desync', 0, {'fut': ('gate', 0), 'as': 'f'}), ('block_on', 'f'), ('try_sync', 0)), T('W', ('open_gate', 0), ('rewake', 0)),
                                                 T('Z', ('try_sync', 0, {'probe': True}), final=True)],
                       pool_max=0, R=2, B=30, oracles=BASE + ('results', 'deadlock', 'final_try_sync')))
        if not q:
            L.append(S('c09_p1_sync_try_desync', [T('A', ('sync', 0)), T('B', ('try_sync', 0)), T('C', ('desync', 0))],
                       pool_max=1, R=3, B=14, oracles=BASE + ('results', 'deadlock', 'quiescent_complete')))
            L += matrix('C09', lambda a, b, P: BASE + ('results', 'deadlock') + (('quiescent_complete',) if P else ()), want=lambda a, b, P: 'try' in (a, b))
            L += state_matrix('C09', lambda st, k, P: BASE + ('results', 'deadlock', 'order') + (('quiescent_complete',) if P else ()), want=lambda st, k: k == 'try')
            L.append(S('c09_p1_fut_try', [T('A', ('future_desync', 0, {'fut': ('gate', 0), 'as': 'f'}), ('detach', 'f')), T('B', ('try_sync', 0)), T('W', ('open_gate', 0))],
                       pool_max=1, R=3, B=14, oracles=BASE + ('results', 'deadlock', 'quiescent_complete')))
    elif prop == 'C03':
        L.append(S('c03_p1_two_queues', [T('A', ('desync', 0)), T('B', ('desync', 1))], pool_max=1, queues=2, R=3, B=14,
                   oracles=BASE + ('quiescent_complete',)))
        L.append(S('c03_p1_desync_sync', [T('A', ('desync', 0)), T('B', ('sync', 0))], pool_max=1, R=3, B=14,
                   oracles=BASE + ('quiescent_complete',)))
        L.append(S('c03_p1_desync_try', [T('A', ('desync', 0)), T('B', ('try_sync', 0))], pool_max=1, R=3, B=14,
                   oracles=BASE + ('quiescent_complete',)))
        # schedule [stale entry of q1, q2] when the only pool thread frees up: B's sync drains q1 itself (its schedule entry stays behind), then q2 is queued
        L.append(S('c03_p1_stale_entry_r2', [T('A', ('desync', 0, GATE)), T('B', ('desync', 1), ('sync', 1), ('desync', 2), ('open_gate', 0))], pool_max=1, queues=3, R=2, B=34,
                   order=[0, 2, 1], oracles=BASE + ('deadlock', 'quiescent_complete')))
        if q: L += state_matrix('C03', lambda st, k, P: BASE + ('quiescent_complete',), want=lambda st, k: st in ('wfw', 'runpool', 'pending', 'suspended', 'stale_pool') and k in ('desync', 'sync', 'try'), R=2)
        if not q: L.append(S('c03_p1_stale_entry', [T('A', ('desync', 0, GATE)), T('B', ('desync', 1), ('sync', 1), ('desync', 2)), T('W', ('open_gate', 0))], pool_max=1, queues=3, R=3, B=16,
                   oracles=BASE + ('quiescent_complete',)))
        if not q:
            L.append(S('c03_p1_desync_desync_sync', [T('A', ('desync', 0), ('desync', 0)), T('B', ('sync', 0))], pool_max=1, R=3, B=16,
                       oracles=BASE + ('quiescent_complete', 'results')))
            L.append(S('c03_p1_sync_try_desync', [T('A', ('sync', 0)), T('B', ('try_sync', 0)), T('C', ('desync', 0))], pool_max=1, R=3, B=14,
                       oracles=BASE + ('quiescent_complete',)))
            L.append(S('c03_p2_three_queues', [T('A', ('desync', 0)), T('B', ('desync', 1)), T('C', ('desync', 2))], pool_max=2, queues=3, R=3, B=14,
                       oracles=BASE + ('quiescent_complete',)))
            L += matrix('C03', lambda a, b, P: BASE + ('quiescent_complete',), pools=(1,))
            L += state_matrix('C03', lambda st, k, P: BASE + ('quiescent_complete',), want=lambda st, k: st in ('wfw', 'runpool', 'pending', 'suspended', 'stale_pool'))
    elif prop == 'C04':
        L.append(S('c04_p0_sync_sync_desync', [T('A', ('sync', 0)), T('B', ('sync', 0)), T('C', ('desync', 0))], pool_max=0, R=3, B=14,
                   oracles=BASE + ('results', 'deadlock')))
        L.append(S('c04_p1_desync_sync', [T('A', ('desync', 0)), T('B', ('sync', 0))], pool_max=1, R=3, B=14,
                   oracles=BASE + ('results', 'deadlock')))
        L.append(S('c04_p1_gate_desync_sync', [T('A', ('desync', 0, GATE)), T('B', ('sync', 0)), T('W', ('open_gate', 0))],
                   pool_max=1, R=3, B=14, oracles=BASE + ('results', 'deadlock')))
        # the queue is parked on a future last polled by the pool's only thread (WaitingForWake), that thread is then kept busy by another object,
        # a sync caller blocks on the queue and only then is the future woken: the caller must take the queue over itself
        L.append(S('c04_p1_fut_sync_busy_pool_seq', [T('A', ('future_desync', 0, {'fut': ('gate', 0), 'as': 'f'}), ('detach', 'f'), ('desync', 1, {'acts': ['enter', ('gate', 1), 'exit']})), T('B', ('sync', 0)), T('W', ('open_gate', 0))],
                   pool_max=1, queues=2, seq='A P0 A P0 B W B', B=20, oracles=BASE + ('results', 'deadlock'), witness='callers_done'))
        # two callers blocked in the background-wait path at once, no pool: when the first finishes, the second must be told to take the queue over
        L.append(S('c04_p0_three_syncs_seq', [T('A', ('sync', 0)), T('B', ('sync', 0)), T('C', ('sync', 0))], pool_max=0, seq='A B C A B C', B=26,
                   oracles=BASE + ('results', 'deadlock')))
        if q: L += state_matrix('C04', lambda st, k, P: BASE + ('results', 'deadlock', 'order'), want=lambda st, k: k == 'sync', R=2)
        if not q: L.append(S('c04_p1_fut_sync_busy_pool', [T('A', ('future_desync', 0, {'fut': ('gate', 0), 'as': 'f'}), ('detach', 'f'), ('desync', 1, {'acts': ['enter', ('gate', 1), 'exit']})), T('B', ('sync', 0)), T('W', ('open_gate', 0))],
                   pool_max=1, queues=2, R=3, B=16, oracles=BASE + ('results', 'deadlock')))
        if not q:
            L.append(S('c04_p1_sync_sync', [T('A', ('sync', 0)), T('B', ('sync', 0)), T('C', ('desync', 0))], pool_max=1, R=3, B=14,
                       oracles=BASE + ('results', 'deadlock')))
            L.append(S('c04_p1_two_objects', [T('A', ('desync', 0, GATE)), T('B', ('sync', 0)), T('C', ('sync', 1)), T('W', ('open_gate', 0))],
                       pool_max=1, queues=2, R=3, B=14, oracles=BASE + ('results', 'deadlock')))
            L += matrix('C04', lambda a, b, P: BASE + ('results', 'deadlock'), want=lambda a, b, P: 'sync' in (a, b))
            L += state_matrix('C04', lambda st, k, P: BASE + ('results', 'deadlock', 'order'), want=lambda st, k: k == 'sync')
    elif prop == 'C01':
        L.append(S('c01_p1_desync_sync', [T('A', ('desync', 0)), T('B', ('sync', 0))], pool_max=1, R=3, B=14, oracles=BASE))
        L.append(S('c01_p1_desync_try', [T('A', ('desync', 0)), T('B', ('try_sync', 0))], pool_max=1, R=3, B=14, oracles=BASE))
        L.append(S('c01_p0_sync_sync_try', [T('A', ('sync', 0)), T('B', ('sync', 0)), T('C', ('try_sync', 0))], pool_max=0, R=3, B=14, oracles=BASE))
        L.append(S('c01_p0_fut_sync_sync', [T('A', ('future_desync', 0, {'fut': ('gate', 0), 'as': 'f'}), ('detach', 'f'), ('sync', 0)), T('B', ('sync', 0)), T('W', ('open_gate', 0))], pool_max=0, R=(2 if q else 3), B=(20 if q else 16), oracles=BASE))
        # a future operation suspended on the pool thread is woken while a try_sync arrives (the queue passes through Idle with the operation
        # still queued between the waker's state store and its reschedule)
        L.append(S('c01_p1_fut_try_seq', [T('A', ('future_desync', 0, {'fut': ('gate', 0), 'as': 'f'}), ('detach', 'f')), T('B', ('try_sync', 0)), T('W', ('open_gate', 0))],
                   pool_max=1, seq='A! P0 W B W P0 B P0', B=16, oracles=BASE))
        if q: L += state_matrix('C01', lambda st, k, P: BASE, want=lambda st, k: k in ('try', 'sync', 'desync'), R=2)
        if not q:
            L.append(S('c01_p1_desync_sync_try', [T('A', ('desync', 0)), T('B', ('sync', 0)), T('C', ('try_sync', 0))], pool_max=1, R=3, B=14, oracles=BASE))
            L.append(S('c01_p1_desync2_sync', [T('A', ('desync', 0), ('desync', 0)), T('B', ('sync', 0))], pool_max=1, R=3, B=16, oracles=BASE))
            L.append(S('c01_p1_fut_sync', [T('A', ('future_desync', 0, {'fut': ('gate', 0), 'as': 'f'}), ('detach', 'f')), T('B', ('sync', 0)), T('W', ('open_gate', 0))],
                       pool_max=1, R=3, B=14, oracles=BASE))
            L += matrix('C01', lambda a, b, P: BASE)
            L += state_matrix('C01', lambda st, k, P: BASE)
            # stale waker: an operation drained by A's sync left a waker behind that fires late, while a second future operation is suspended
            # on the pool thread, and a try_sync arrives
            L.append(S('c01_p1_stale_wake_try', [T('A', ('future_desync', 0, {'fut': ('gate', 0), 'as': 'f'}), ('detach', 'f'), ('sync', 0), ('future_desync', 0, {'fut': ('gate', 1), 'as': 'g'}), ('detach', 'g'), ('try_sync', 0)),
                                                 T('W', ('open_gate', 0), ('rewake', 0), ('open_gate', 1))],
                       pool_max=1, R=3, B=20, oracles=BASE))
    elif prop == 'C02':
        L.append(S('c02_p1_desync_desync', [T('A', ('desync', 0), ('desync', 0))], pool_max=1, R=3, B=14, oracles=BASE + ('order',)))
        L.append(S('c02_p0_sync_desync_sync', [T('A', ('sync', 0)), T('B', ('desync', 0), ('sync', 0))], pool_max=0, R=3, B=14, oracles=BASE + ('order',)))
        L.append(S('c02_p1_desync_sync', [T('A', ('desync', 0)), T('B', ('sync', 0))], pool_max=1, R=3, B=14, oracles=BASE + ('order',)))
        L.append(S('c02_p1_fut_desync', [T('A', ('future_desync', 0, {'fut': ('gate', 0), 'as': 'f'}), ('detach', 'f'), ('desync', 0)), T('W', ('open_gate', 0))], pool_max=1, R=3, B=16, oracles=BASE + ('order',)))
        # a hand-polled future operation: the poll claims the pending queue itself (its schedule entry stays behind), the job returns Pending and
        # the queue is parked for the next poll; a pool thread that pops the stale entry may take the parked queue over at any point of that
        # hand-over, with a later desync (made after future_desync returned: gate 6) queued behind the unfinished operation
        L.append(S('c02_p1_poll_takeover', [T('A', ('future_desync', 0, {'fut': ('gate', 0), 'as': 'f'}), ('wait_gate', 6), ('poll', 'f'), ('detach', 'f')), T('B', ('open_gate', 6), ('desync', 0)),
                                            T('W', ('open_gate', 0))], pool_max=1, setup='A!', R=2, B=24, oracles=BASE + ('order', 'deadlock', 'quiescent_complete')))
        if q: L += state_matrix('C02', lambda st, k, P: BASE + ('order',), want=lambda st, k: k in ('try', 'sync', 'desync'), R=2)
        if not q:
            L.append(S('c02_p1_desync_desync_sync', [T('A', ('desync', 0), ('desync', 0)), T('B', ('sync', 0))], pool_max=1, R=3, B=16, oracles=BASE + ('order',)))
            L.append(S('c02_p1_desync_try_sync', [T('A', ('desync', 0), ('try_sync', 0)), T('B', ('sync', 0))], pool_max=1, R=3, B=16, oracles=BASE + ('order',)))
            L += matrix('C02', lambda a, b, P: BASE + ('order',))
            L += state_matrix('C02', lambda st, k, P: BASE + ('order',))
    elif prop == 'C10':
        L.append(S('c10_p2_gate_other', [T('A', ('desync', 0, GATE)), T('B', ('desync', 1))], pool_max=2, queues=2, R=(2 if q else 3), B=16,
                   oracles=BASE + ('independent',), witness='ungated_done'))
        # the pool's only thread frees up with [stale entry of q1, q2] in the schedule: q2 must still be run
        L.append(S('c10_p1_stale_entry_r2', [T('A', ('desync', 0, GATE)), T('B', ('desync', 1), ('sync', 1), ('desync', 2), ('open_gate', 0))], pool_max=1, queues=3, R=2, B=34,
                   order=[0, 2, 1], oracles=BASE + ('independent',), witness='ungated_done'))
        # two objects become pending while there is no pool thread at all; raising the maximum must start a thread for each of them: the first one
        # blocks for good (its gate is never opened), the second must still run
        L.append(S('c10_p0_raise_max', [T('A', ('desync', 0, GATE), ('desync', 1), ('set_max', 2))], pool_max=0, pool_slots=2, queues=2, setup='A!', R=2, B=16,
                   oracles=BASE + ('independent',), witness='ungated_done'))
        if not q: L.append(S('c10_p2_stale_entry', [T('A', ('desync', 0, GATE)), T('B', ('desync', 1), ('sync', 1), ('desync', 2))], pool_max=2, queues=3, R=(2 if q else 3), B=18,
                   oracles=BASE + ('independent',), witness='ungated_done'))
        if not q:
            L.append(S('c10_p2_gate_sync_other', [T('A', ('desync', 0, GATE)), T('B', ('sync', 0)), T('C', ('desync', 1))], pool_max=2, queues=2, R=3, B=14,
                       oracles=BASE + ('independent',), witness='ungated_done'))
    elif prop == 'C17':
        L.append(S('c17_p1_two_spawners', [T('A', ('desync', 0)), T('B', ('desync', 1))], pool_max=1, pool_slots=2, queues=2, R=3, B=14,
                   oracles=BASE + ('pool_max',)))
        # two scheduling calls race through 'no dormant thread, below the maximum, spawn one' (targeted slot sequence: cheap)
        L.append(S('c17_p1_two_spawners_seq', [T('A', ('desync', 0)), T('B', ('desync', 1))], pool_max=1, pool_slots=2, queues=2, seq='A B A B P0 P1 A B P0 P1', B=14,
                   oracles=BASE + ('pool_max', 'quiescent_complete')))
        L.append(S('c17_p0_no_threads', [T('A', ('desync', 0)), T('B', ('sync', 0))], pool_max=0, pool_slots=1, R=2, B=16,
                   oracles=BASE + ('pool_max', 'deadlock')))
        # lower the maximum below the number of live threads, then despawn: must return with the pool at the new maximum
        L.append(S('c17_p1_despawn', [T('A', ('desync', 0), ('set_max', 0), ('despawn',))], pool_max=1, pool_slots=2, R=3, B=24,
                   oracles=BASE + ('pool_max', 'deadlock', 'quiescent_complete')))
        # ... while the thread being despawned is busy with a job that itself schedules work (on another queue) during the despawn.
        # The maximum is changed between phases, as the property's quantifier says: after A's scheduling call returned and before the
        # job's own scheduling call starts (the job waits for gate 0, which B opens after set_max_threads returned).
        L.append(S('c17_p1_despawn_busy', [T('A', ('desync', 0, {'acts': ['enter', ('gate', 0), ('desync', 1), 'exit']})), T('B', ('set_max', 0), ('open_gate', 0), ('despawn',), after=['A'])],
                   pool_max=1, pool_slots=2, queues=2, seq='A P0 B P0 P1 B', B=30, oracles=BASE + ('pool_max', 'deadlock')))
        if not q:
            L.append(S('c17_p2_three_spawners', [T('A', ('desync', 0)), T('B', ('desync', 1)), T('C', ('desync', 2))], pool_max=2, pool_slots=3, queues=3, R=3, B=14,
                       oracles=BASE + ('pool_max',)))
    elif prop == 'C06':
        for P in (1, 0):
            ths = [T('A', ('future_desync', 0, {'fut': ('gate', 0), 'as': 'f'}), ('block_on', 'f')), T('W', ('open_gate', 0))]
            L.append(S('c06_p%d_poll_drain' % P, ths, pool_max=P, R=(3 if (P == 0 or not q) else 2), B=18, oracles=BASE + ('deadlock', 'fut_results')))
        L.append(S('c06_p1_pool_runner', [T('A', ('future_desync', 0, {'fut': ('gate', 0), 'as': 'f'}), ('detach', 'f'), ('desync', 0)), T('W', ('open_gate', 0))],
                   pool_max=1, R=3, B=16, oracles=BASE + ('deadlock', 'quiescent_complete', 'order')))
        L.append(S('c06_p0_sync_runner', [T('A', ('future_desync', 0, {'fut': ('gate', 0), 'as': 'f'}), ('detach', 'f'), ('sync', 0)), T('W', ('open_gate', 0))],
                   pool_max=0, R=3, B=16, oracles=BASE + ('deadlock', 'results')))
        # stale waker of another thread: A's sync drained an earlier future operation (its WakeThread waker is kept by the event source and
        # fired late), then B's sync drains a second suspended operation and is parked when the stale and then the real wake-up arrive
        L.append(S('c06_p0_stale_other_thread', [T('A', ('future_desync', 0, {'fut': ('gate', 0), 'as': 'f'}), ('detach', 'f'), ('sync', 0)),
                                                 T('B', ('future_desync', 0, {'fut': ('gate', 1), 'as': 'g'}), ('detach', 'g'), ('sync', 0), after=['A']),
                                                 T('W', ('open_gate', 0), ('rewake', 0), ('open_gate', 1))],
                   pool_max=0, seq='A! W A! B! W B W B', B=24, oracles=BASE + ('deadlock', 'results')))
        # every suspension context of the state matrix (pool thread, sync caller's drain, hand poll), woken once and then again by a kept clone of
        # the same waker ("repeatedly"), with a marker operation behind the suspended one
        L += state_matrix('C06', lambda st, k, P: BASE + ('deadlock', 'results') + (('quiescent_complete',) if P else ()), R=(2 if q else 3), rewake=True,
                          want=lambda st, k: (st == 'wfw' and k in ('desync', 'sync')) or (st in ('wfu', 'wfp') and k == 'desync'))
    elif prop == 'C07':
        L.append(S('c07_p1_await', [T('A', ('future_desync', 0, {'fut': 'ready', 'as': 'f'}), ('block_on', 'f'))], pool_max=1, R=3, B=16,
                   oracles=BASE + ('deadlock', 'fut_results')))
        L.append(S('c07_p0_await', [T('A', ('future_desync', 0, {'fut': 'ready', 'as': 'f'}), ('block_on', 'f'))], pool_max=0, R=2, B=20,
                   oracles=BASE + ('deadlock', 'fut_results')))
        L.append(S('c07_p1_syncfut', [T('A', ('future_desync', 0, {'fut': 'ready', 'as': 'f'}), ('sync_fut', 'f'))], pool_max=1, R=3, B=16,
                   oracles=BASE + ('deadlock', 'fut_results')))
        L.append(S('c07_p1_detach', [T('A', ('future_desync', 0, {'fut': 'ready', 'as': 'f'}), ('detach', 'f'))], pool_max=1, R=3, B=16,
                   oracles=BASE + ('deadlock', 'quiescent_complete')))
        # the operation wakes itself during a poll made by the caller (who claimed the queue) and is then detached: a pool thread must finish it
        L.append(S('c07_p1_yield_poll_detach', [T('A', ('future_desync', 0, {'fut': 'yield', 'as': 'f'}), ('poll', 'f'), ('detach', 'f'))], pool_max=1, R=2, B=22,
                   oracles=BASE + ('deadlock', 'quiescent_complete')))
        if not q: L.append(S('c07_p1_poll_detach', [T('A', ('future_desync', 0, {'fut': ('gate', 0), 'as': 'f'}), ('poll', 'f'), ('detach', 'f')), T('W', ('open_gate', 0))], pool_max=1, R=3, B=18,
                   oracles=BASE + ('deadlock', 'quiescent_complete')))
        # the awaited future_desync from every queue state that has a pool thread (the result must arrive exactly once, after the operation, and
        # the awaiting task must be woken)
        L += state_matrix('C07', lambda st, k, P: BASE + ('deadlock', 'fut_results', 'quiescent_complete'), kinds=('fdes_await',), R=(2 if q else 3),
                          want=lambda st, k: st in ('wfw', 'runpool', 'pending', 'stale_pool'))
    elif prop == 'C13':
        L.append(S('c13_p1_suspend_resume', [T('A', ('suspend', 0, {'as': 's'}), ('desync', 0), ('block_on', 's'), ('resume', 's', 'resume'))],
                   pool_max=1, R=2, B=24, oracles=BASE + ('deadlock', 'suspend', 'quiescent_complete')))
        L.append(S('c13_p1_suspend_drop', [T('A', ('suspend', 0, {'as': 's'}), ('desync', 0), ('block_on', 's'), ('resume', 's', 'drop'))],
                   pool_max=1, R=2, B=24, oracles=BASE + ('deadlock', 'suspend', 'quiescent_complete')))
        if not q:
            L.append(S('c13_p1_desync_suspend_resume', [T('A', ('desync', 0), ('suspend', 0, {'as': 's'}), ('desync', 0), ('block_on', 's'), ('resume', 's', 'resume'))],
                       pool_max=1, R=3, B=18, oracles=BASE + ('deadlock', 'suspend', 'quiescent_complete')))
            pass
        # a sync (and a desync) from another thread while the queue is suspended (set-up prefix: the suspend operation has run on the pool thread and its
        # future has resolved): they must wait for the resumer, used / dropped by the first thread at a solver-chosen point, and complete afterwards
        for how in ('resume', 'drop'):
            if q and how == 'drop': continue
            L.append(S('c13_p1_sync_while_suspended_%s_su' % how, [T('A', ('suspend', 0, {'as': 's'}), ('block_on', 's'), ('wait_gate', 5), ('resume', 's', how)), T('B', ('sync', 0)), T('W', ('open_gate', 5))],
                       pool_max=1, setup='A! P0! A!', R=2, B=26, oracles=BASE + ('deadlock', 'suspend', 'results', 'quiescent_complete')))
        if True:
            L.append(S('c13_p0_suspend_resume_sync', [T('A', ('suspend', 0, {'as': 's'}), ('block_on', 's'), ('resume', 's', 'resume'), ('sync', 0))], pool_max=0, R=2, B=26,
                       oracles=BASE + ('deadlock', 'suspend', 'results')))
    elif prop == 'C08':
        L.append(S('c08_p0_await', [T('A', ('future_sync', 0, {'fut': 'ready', 'as': 'f'}), ('block_on', 'f'))], pool_max=0, R=2, B=30,
                   oracles=BASE + ('deadlock', 'fut_results')))
        if not q:
            L.append(S('c08_p1_await', [T('A', ('future_sync', 0, {'fut': 'ready', 'as': 'f'}), ('block_on', 'f'), ('desync', 0))], pool_max=1, R=3, B=20,
                       oracles=BASE + ('deadlock', 'fut_results', 'quiescent_complete')))
        L.append(S('c08_p1_drop_unpolled', [T('A', ('future_sync', 0, {'fut': 'ready', 'as': 'f'}), ('drop_fut', 'f'), ('desync', 0))], pool_max=1, R=3, B=18,
                   oracles=BASE + ('deadlock', 'cancelled_clean', 'quiescent_complete')))
        L.append(S('c08_p1_drop_midway', [T('A', ('future_sync', 0, {'fut': ('gate', 0), 'as': 'f'}), ('poll', 'f'), ('poll', 'f'), ('drop_fut', 'f'), ('desync', 0))], pool_max=1, R=(2 if q else 3), B=22,
                   oracles=BASE + ('deadlock', 'cancelled_clean', 'quiescent_complete')))
        # a later operation is already queued when the operation is dropped midway: it must not start before the operation's future is destroyed
        L.append(S('c08_p1_drop_midway_queued', [T('A', ('future_sync', 0, {'fut': ('gate', 0), 'as': 'f'}), ('poll', 'f'), ('poll', 'f'), ('desync', 0), ('drop_fut', 'f'))], pool_max=1, R=2, B=24,
                   oracles=BASE + ('deadlock', 'cancelled_clean', 'quiescent_complete')))
    elif prop == 'C05':
        MEM = BASE + ('memory', 'drop_waits', 'deadlock')
        L.append(S('c05_p1_desync_drop', [T('A', ('d_new', 'd'), ('d_desync', 'd'), ('d_drop', 'd'))], pool_max=1, queues=0, R=3, B=16, oracles=MEM))
        L.append(S('c05_p1_fut_drop', [T('A', ('d_new', 'd'), ('d_future_desync', 'd', {'fut': ('gate', 0), 'as': 'f'}), ('detach', 'f'), ('d_drop', 'd')), T('W', ('open_gate', 0))],
                   pool_max=1, queues=0, R=(2 if q else 3), B=18, order=([0, 2, 1] if q else None), oracles=MEM))
        L.append(S('c05_p1_drop_elsewhere', [T('A', ('d_new', 'd'), ('d_desync', 'd'), ('d_give', 'd', 0)), T('B', ('d_take', 0, 'd'), ('d_drop', 'd'))],
                   pool_max=1, queues=0, R=3, B=16, oracles=MEM))
        # a hand-polled future operation (polled while there is no pool thread: the caller drains, the queue waits for the next poll), then a
        # pool thread becomes available and takes the woken queue over; the future is dropped unfinished and the Desync is dropped while the
        # pool thread is inside the operation
        L.append(S('c05_p0_poll_takeover_drop', [T('A', ('d_new', 'd'), ('d_future_desync', 'd', {'fut': ('gate', 0), 'as': 'f'}), ('poll', 'f'), ('set_max', 1), ('wait_gate', 5), ('drop_fut', 'f'), ('d_drop', 'd')),
                                               T('W', ('open_gate', 0), ('open_gate', 5))], pool_max=0, pool_slots=1, queues=0, seq='A! W P0 A P0 A P0', B=30, oracles=MEM))
        # the operation is suspended on the pool thread (set-up prefix), then the drop of the last owner races its wake-up for three rounds
        L.append(S('c05_p1_wfw_drop_su', [T('A', ('d_new', 'd'), ('d_future_desync', 'd', {'fut': ('gate', 0), 'as': 'f'}), ('detach', 'f'), ('wait_gate', 5), ('d_drop', 'd')),
                                          T('W', ('open_gate', 5), ('open_gate', 0))], pool_max=1, queues=0, setup='A! P0!', R=3, B=18, oracles=MEM))
        if not q:
            L.append(S('c05_p1_two_desync_drop', [T('A', ('d_new', 'd'), ('d_desync', 'd'), ('d_desync', 'd'), ('d_drop', 'd'))], pool_max=1, queues=0, R=3, B=18, oracles=MEM))
            L.append(S('c05_p0_desync_drop', [T('A', ('d_new', 'd'), ('d_desync', 'd'), ('d_drop', 'd'))], pool_max=0, queues=0, R=2, B=24, oracles=MEM))
    elif prop == 'C14':
        MEM = BASE + ('memory',)
        L.append(S('c14_p1_desync_sync_drop', [T('A', ('d_new', 'd'), ('d_desync', 'd'), ('d_sync', 'd'), ('d_drop', 'd'))], pool_max=1, queues=0, R=3, B=18, oracles=MEM))
        L.append(S('c14_p0_sync_sync_desync', [T('A', ('sync', 0)), T('B', ('sync', 0)), T('C', ('desync', 0))], pool_max=0, R=3, B=14, oracles=MEM))
        L.append(S('c14_p1_desync_sync', [T('A', ('desync', 0)), T('B', ('sync', 0))], pool_max=1, R=3, B=14, oracles=MEM))
        L.append(S('c14_p1_try_sync_drop', [T('A', ('d_new', 'd'), ('d_try_sync', 'd'), ('d_desync', 'd'), ('d_drop', 'd'))], pool_max=1, queues=0, R=3, B=18, oracles=MEM))
        # the Desync is dropped while a wake-up of its suspended future is half done (queue Idle with the future still queued): thread order A, P0, W
        L.append(S('c14_p1_fut_drop', [T('A', ('d_new', 'd'), ('d_future_desync', 'd', {'fut': ('gate', 0), 'as': 'f'}), ('detach', 'f'), ('d_drop', 'd')), T('W', ('open_gate', 0))],
                   pool_max=1, queues=0, R=2, B=18, order=[0, 2, 1], oracles=MEM))
        if not q:
            L.append(S('c14_p1_fut_sync_drop', [T('A', ('d_new', 'd'), ('d_future_desync', 'd', {'fut': ('gate', 0), 'as': 'f'}), ('detach', 'f'), ('d_sync', 'd'), ('d_drop', 'd')), T('W', ('open_gate', 0))],
                       pool_max=1, queues=0, R=3, B=18, oracles=MEM))
    elif prop == 'C15':
        PAN = {'acts': ['enter', 'panic']}
        OR15 = ('panic_unexpected', 'panic_contained', 'overlap', 'ran_twice', 'deadlock')
        def S15(name, threads, expect, **kw):
            s_ = S(name, threads, oracles=OR15, **kw); s_['scen']['unwind'] = True; s_['scen']['expect_panic'] = expect; return s_
        # the job panics on the pool's only thread; afterwards (thread gone) Y uses a healthy object, which needs a replacement thread, Z hits the panicked one
        L.append(S15('c15_p1_pool_panic', [T('A', ('desync', 0, PAN)), T('Y', ('desync', 1), after=['A', 'P0']),
                                           T('Z', ('try_sync', 0, {'must_panic': True}), final=True, after=['A', 'P0', 'Y'])],
                     ['pool', 'Z'], pool_max=1, pool_slots=2, queues=2, R=3, B=16))
        # the job panics in the sync caller
        L.append(S15('c15_p0_sync_panic', [T('A', ('sync', 0, PAN)), T('Y', ('sync', 1), final=True, after=['A']),
                                           T('Z', ('desync', 0, {'must_panic': True}), final=True, after=['A'])],
                     ['A', 'Z'], pool_max=0, queues=2, R=2, B=20))
        # the job is a future that wakes itself and panics while a pool thread polls it (queue is AwokenWhileRunning when the guard unwinds)
        L.append(S15('c15_p1_future_panic', [T('A', ('future_desync', 0, {'fut': 'wake_panic', 'as': 'f'}), ('detach', 'f')), T('Y', ('desync', 1), after=['A', 'P0']),
                                             T('Z', ('try_sync', 0, {'must_panic': True}), final=True, after=['A', 'P0', 'Y'])],
                     ['pool', 'Z'], pool_max=1, pool_slots=2, queues=2, R=3, B=16))
        # the job is a future that panics while the task awaiting it polls it (the poll claimed the queue: the polling task is the runner)
        L.append(S15('c15_p0_poll_panic', [T('A', ('future_desync', 0, {'fut': 'panic', 'as': 'f'}), ('block_on', 'f')), T('Y', ('sync', 1), final=True, after=['A']),
                                           T('Z', ('desync', 0, {'must_panic': True}), final=True, after=['A'])],
                     ['A', 'Z'], pool_max=0, queues=2, R=2, B=20))
        if not q:
            L.append(S15('c15_p1_future_panic_nowake', [T('A', ('future_desync', 0, {'fut': 'panic', 'as': 'f'}), ('detach', 'f')), T('Y', ('desync', 1), after=['A', 'P0']),
                                                        T('Z', ('sync', 0, {'must_panic': True}), final=True, after=['A', 'P0', 'Y'])],
                         ['pool', 'Z'], pool_max=1, pool_slots=2, queues=2, R=3, B=16))
            L.append(S15('c15_p0_sync_panic_sync', [T('A', ('sync', 0, PAN)), T('Y', ('desync', 1), ('sync', 1), final=True, after=['A']),
                                                    T('Z', ('sync', 0, {'must_panic': True}), final=True, after=['A'])],
                         ['A', 'Z'], pool_max=0, queues=2, R=2, B=20))
            L.append(S15('c15_p1_pool_panic_desync', [T('A', ('desync', 0, PAN)), T('Y', ('desync', 1), ('sync', 1), after=['A', 'P0']),
                                                      T('Z', ('desync', 0, {'must_panic': True}), final=True, after=['A', 'P0', 'Y'])],
                         ['pool', 'Z'], pool_max=1, pool_slots=2, queues=2, R=3, B=16))
            L.append(S15('c15_p2_pool_panic', [T('A', ('desync', 0, PAN)), T('B', ('desync', 1)), T('Y', ('desync', 2), after=['A', 'B', 'P0']),
                                               T('Z', ('try_sync', 0, {'must_panic': True}), final=True, after=['A', 'B', 'P0', 'Y'])],
                         ['pool', 'Z'], pool_max=2, pool_slots=3, queues=3, R=3, B=14))
    elif prop == 'C11':
        OR11 = BASE + ('pipe_in', 'deadlock', 'memory')
        # gated items, pool of one; the producer thread W opens the gates (item arrival + wake-up) at solver-chosen points
        # quick tier: pipe_in (and the drop of the caller's reference) run as a deterministic prefix on the caller's thread, before the pool thread
        # it spawned has started; the item arrivals, their wake-ups and the poll jobs they schedule are then interleaved freely (R rounds)
        L.append(S('c11_p1_one_item_su', [T('A', ('p_new', 'x'), ('pipe_in', 'x', {'gates': [0], 'ends': True})), T('W', ('open_gate', 0))],
                   pool_max=1, queues=0, setup='A!', R=(2 if q else 3), B=30, oracles=OR11))
        L.append(S('c11_p1_two_items_su', [T('A', ('p_new', 'x'), ('pipe_in', 'x', {'gates': [0, 1], 'ends': True})), T('W', ('open_gate', 0), ('open_gate', 1))],
                   pool_max=1, queues=0, setup='A!', R=(2 if q else 3), B=30, oracles=OR11))
        L.append(S('c11_p1_drop_then_event_su', [T('A', ('p_new', 'x'), ('pipe_in', 'x', {'gates': [0], 'ends': False}), ('p_drop', 'x')), T('W', ('open_gate', 0))],
                   pool_max=1, queues=0, setup='A!', R=(2 if q else 3), B=40, oracles=OR11))
        L.append(S('c11_p1_item_and_sync_su', [T('A', ('p_new', 'x'), ('pipe_in', 'x', {'gates': [99, 0], 'ends': False}), ('wait_gate', 5), ('d_sync', 'x')), T('W', ('open_gate', 5), ('open_gate', 0))],
                   pool_max=1, queues=0, setup='A!', R=(2 if q else 3), B=30, oracles=OR11))
        # chained pipes: the processing closure of pipe 0 owns the sending half of the channel that feeds pipe 1, so releasing pipe 0's closure is a
        # stream event of pipe 1; both Desyncs are gone when the first event arrives (the releases run on the shared disposal queue)
        L.append(S('c11_p1_chained_su', [T('A', ('p_new', 'x'), ('p_new', 'y'), ('pipe_in', 'x', {'gates': [0], 'ends': False, 'drop_opens': 1}), ('pipe_in', 'y', {'gates': [1], 'ends': False}),
                                              ('p_drop', 'x'), ('p_drop', 'y')), T('W', ('open_gate', 0))], pool_max=1, queues=0, setup='A!', R=2, B=34, oracles=OR11))
        # no pool thread: pipe_in's initial poll runs on the caller (inside its sync), the item's arrival and wake-up race it from the start (no
        # set-up prefix); a final sync by the caller runs whatever poll job the wake-up queued, so that every arrived item must have been
        # processed at quiescence
        L.append(S('c11_p0_one_item_race', [T('A', ('p_new', 'x'), ('pipe_in', 'x', {'gates': [0], 'ends': True}), ('wait_gate', 5), ('d_sync', 'x')), T('W', ('open_gate', 0), ('open_gate', 5))],
                   pool_max=0, queues=0, R=2, B=34, oracles=OR11))
        if not q:
            L.append(S('c11_p1_one_item', [T('A', ('p_new', 'x'), ('pipe_in', 'x', {'gates': [0], 'ends': True})), T('W', ('open_gate', 0))],
                       pool_max=1, queues=0, R=2, B=30, oracles=OR11))
            L.append(S('c11_p1_drop_then_event', [T('A', ('p_new', 'x'), ('pipe_in', 'x', {'gates': [0], 'ends': False}), ('p_drop', 'x')), T('W', ('open_gate', 0))],
                       pool_max=1, queues=0, R=2, B=40, oracles=OR11))
            L.append(S('c11_p1_two_items', [T('A', ('p_new', 'x'), ('pipe_in', 'x', {'gates': [0, 1], 'ends': True})), T('W', ('open_gate', 0), ('open_gate', 1))],
                       pool_max=1, queues=0, R=2, B=34, oracles=OR11))
            L.append(S('c11_p1_item_and_sync', [T('A', ('p_new', 'x'), ('pipe_in', 'x', {'gates': [99, 0], 'ends': False}), ('d_sync', 'x')), T('W', ('open_gate', 0))],
                       pool_max=1, queues=0, R=2, B=40, oracles=OR11))
    elif prop == 'C12':
        OR12 = BASE + ('pipe_out', 'deadlock', 'memory')
        # one input item that is ready at once, then the end of the input: the consumer (hand-polled task on the caller's thread) races the producing job
        L.append(S('c12_p1_ready_item', [T('A', ('p_new', 'x'), ('pipe', 'x', {'gates': [99], 'ends': True, 'as': 'ps'}), ('s_next', 'ps'), ('s_next', 'ps'))],
                   pool_max=1, queues=0, R=2, B=34, oracles=OR12))
        # back-pressure: buffer depth 1, two items (arriving after the depth was set) then the end of the input; the producing job is throttled after the first output (set-up
        # prefix: the pipe is created, item 0 arrives and is processed, item 1 arrives and its poll job finds the buffer full and parks), then the consumer's reads race the producer's
        # resumption ("the consumer polling while the producer is between 'buffer full' and 'register for release'" is inside the rounds that follow
        # each release)
        L.append(S('c12_p1_backpressure_su', [T('A', ('p_new', 'x'), ('pipe', 'x', {'gates': [0, 1], 'ends': True, 'as': 'ps', 'depth': 1}), ('wait_gate', 5), ('s_next', 'ps'), ('s_next', 'ps'), ('s_next', 'ps')),
                                              T('W', ('open_gate', 0)), T('V', ('open_gate', 1), ('open_gate', 5))], pool_max=1, queues=0, setup='A! W! P0! V! P0!', R=(2 if q else 3), B=30, oracles=OR12))
        if not q:
            L.append(S('c12_p1_one_item', [T('A', ('p_new', 'x'), ('pipe', 'x', {'gates': [0], 'ends': True, 'as': 'ps'}), ('s_next', 'ps'), ('s_next', 'ps')), T('W', ('open_gate', 0))],
                       pool_max=1, queues=0, R=2, B=34, oracles=OR12))
    elif prop == 'C16':
        OR16 = BASE + ('pipe_closed', 'deadlock', 'memory')
        # the input yields one item and then stays silent; the caller drops its own reference and then the output stream
        # set-up prefix: the caller creates the pipe and drops its own reference before the pool thread starts; the drop of the output then races the
        # producing poll job (idle and registered with the input / mid-loop), the input staying silent afterwards
        L.append(S('c16_p1_drop_output_su', [T('A', ('p_new', 'x'), ('pipe', 'x', {'gates': [99], 'ends': False, 'as': 'ps'}), ('p_drop', 'x'), ('wait_gate', 5), ('s_drop', 'ps')), T('W', ('open_gate', 5))],
                   pool_max=1, queues=0, setup='A!', R=(2 if q else 3), B=30, oracles=OR16))
        # mid-loop: an item arrives (W) and its poll job runs while the output is dropped at a solver-chosen point; the input stays silent afterwards
        if not q: L.append(S('c16_p1_drop_midloop_su', [T('A', ('p_new', 'x'), ('pipe', 'x', {'gates': [0], 'ends': False, 'as': 'ps'}), ('p_drop', 'x'), ('wait_gate', 5), ('s_drop', 'ps')), T('W', ('open_gate', 5), ('open_gate', 0))],
                   pool_max=1, queues=0, setup='A!', R=2, B=30, oracles=OR16))
        # the producer is throttled by back-pressure (depth 1: item 0 buffered, the poll job woken by item 1 found the buffer full and registered
        # for release) when the output is dropped; the input stays silent afterwards
        L.append(S('c16_p1_drop_throttled_su', [T('A', ('p_new', 'x'), ('pipe', 'x', {'gates': [0, 1], 'ends': False, 'as': 'ps', 'depth': 1}), ('wait_gate', 5), ('s_drop', 'ps'), ('p_drop', 'x')),
                                                T('W', ('open_gate', 0)), T('V', ('open_gate', 1), ('open_gate', 5))], pool_max=1, queues=0, setup='A! W! P0! V! P0!', R=2, B=34, oracles=OR16))
    return L


# ---------------------------------------------------------------------------------------------------------------------------------
# Thorough tier: a systematic matrix of two-caller programs over the operation kinds (the "programs" part of the quantifiers).
# Every unordered pair of kinds on one object, pool maximum 0 and 1; gated futures get a waker thread W that opens their gates
# at solver-chosen points.  The same programs serve several properties, each with its own oracles.
MX_KINDS = ('desync', 'sync', 'try', 'fdes', 'fdes_await', 'fsync')

def mx_ops(kind, th, q, gate):
    v = 'f' + th
    if kind == 'desync': return [('desync', q)], None
    if kind == 'sync': return [('sync', q)], None
    if kind == 'try': return [('try_sync', q)], None
    if kind == 'fdes': return [('future_desync', q, {'fut': ('gate', gate), 'as': v}), ('detach', v)], gate
    if kind == 'fdes_await': return [('future_desync', q, {'fut': 'ready', 'as': v}), ('block_on', v)], None
    if kind == 'fsync': return [('future_sync', q, {'fut': 'ready', 'as': v}), ('block_on', v)], None
    raise KeyError(kind)

def matrix(prop, oracles_for, pools=(0, 1), want=None, R=3, B=14, seed=0):
    """two callers A and B, one operation each on object 0; `want(ka, kb, P)` filters; `oracles_for(ka, kb, P)` gives the oracles"""
    L = []
    for i, ka in enumerate(MX_KINDS):
        for kb in MX_KINDS[i:]:
            for P in pools:
                if want is not None and not want(ka, kb, P): continue
                opsa, ga = mx_ops(ka, 'A', 0, 0); opsb, gb = mx_ops(kb, 'B', 0, 1)
                ths = [T('A', *opsa), T('B', *opsb)]
                gates = [g for g in (ga, gb) if g is not None]
                if gates: ths.append(T('W', *[('open_gate', g) for g in gates]))
                # a detached operation needs a pool thread to finish (C07: "given at least one pool thread")
                if P == 0 and 'fdes' in (ka, kb) and not ('sync' in (ka, kb)): continue
                heavy = sum(k in ('fdes', 'fdes_await', 'fsync') for k in (ka, kb))
                orc = tuple(oracles_for(ka, kb, P))
                # with no pool thread an awaited future operation is only promised to complete when its polling task is the single context
                # using the queue (C07: "pool size 0 with a single context"; C08: "pool size 0 for the await-to-completion cases only"):
                # with a second caller the liveness oracles would demand more than the properties state, the safety oracles stay
                if P == 0 and heavy: orc = tuple(o for o in orc if o not in ('deadlock', 'quiescent_complete', 'fut_results'))
                # pairs with a future_sync at pool maximum 1 did not finish within an hour at R = 3 (c09_mx_p1_try_fsync) and have no completing
                # schedule at R = 2: left out here; future_sync against every queue state is covered by the state matrix instead
                if P == 1 and 'fsync' in (ka, kb): continue
                L.append(S('%s_mx_p%d_%s_%s' % (prop.lower(), P, ka, kb), ths, pool_max=P, R=R, B=B + 2 * heavy, oracles=orc, cap=(4 if 'fsync' in (ka, kb) else 3)))
    return L

# Thorough tier: the "state matrix".  A deterministic set-up prefix drives one object into each of the queue states the properties name
# (C04: "whether the queue is idle, pending, being run by a pool thread, suspended on a future or being drained by another caller";
# C09: "for every queue state"), then a second caller B issues one operation of each kind while the event that ends the state (gate
# opening = wake-up / job completion / resume) fires at a solver-chosen point: R generic rounds over all threads.
SMX_STATES = ('wfw', 'wfu', 'wfp', 'runpool', 'runsync', 'pending', 'suspended', 'stale_pool', 'stale_drain')

def smx_setup(st):
    """-> (threads of the set-up, pool_max, queues, setup string, event thread ops)"""
    if st == 'wfw':       # future operation suspended on the pool thread (WaitingForWake)
        return [T('A', ('future_desync', 0, {'fut': ('gate', 0), 'as': 'fA'}), ('detach', 'fA'))], 1, 1, 'A! P0!', [('open_gate', 0)]
    if st == 'wfu':       # future operation suspended in a thread draining the queue inside sync (WaitingForUnpark), no pool
        return [T('A', ('future_desync', 0, {'fut': ('gate', 0), 'as': 'fA'}), ('detach', 'fA'), ('sync', 0))], 0, 1, 'A!', [('open_gate', 0)]
    if st == 'wfp':       # future operation suspended after a hand poll drained the queue (WaitingForPoll), no pool
        return [T('A', ('future_desync', 0, {'fut': ('gate', 0), 'as': 'fA'}), ('poll', 'fA'), ('wait_gate', 5), ('block_on', 'fA'))], 0, 1, 'A!', [('open_gate', 0), ('open_gate', 5)]
    if st == 'runpool':   # job running on the pool thread (blocked on gate 1 inside the job)
        return [T('A', ('desync', 0, {'acts': ['enter', ('gate', 1), 'exit']}))], 1, 1, 'A! P0!', [('open_gate', 1)]
    if st == 'runsync':   # closure of a sync caller running (blocked on gate 1 inside the closure), no pool
        return [T('A', ('sync', 0, {'acts': ['enter', ('gate', 1), 'exit']}))], 0, 1, 'A!', [('open_gate', 1)]
    if st == 'pending':   # queue Pending in the schedule while the pool's only thread is busy with another object
        return [T('A', ('desync', 1, {'acts': ['enter', ('gate', 1), 'exit']}), ('desync', 0))], 1, 2, 'A! P0!', [('open_gate', 1)]
    if st == 'suspended': # queue suspended (resumer held by A until gate 5 opens)
        return [T('A', ('suspend', 0, {'as': 's'}), ('block_on', 's'), ('wait_gate', 5), ('resume', 's', 'resume'))], 1, 1, 'A! P0! A!', [('open_gate', 5)]
    # stale waker: a future operation has completed (the object is idle again) and the event source fires a kept clone of its last waker
    # late, at a solver-chosen point of B's operation (the operation was run by the pool thread / by the awaiting task itself, no pool)
    if st == 'stale_pool':
        return [T('A', ('future_desync', 0, {'fut': ('gate', 0), 'as': 'fA'}), ('block_on', 'fA'), ('open_gate', 5))], 1, 1, 'A! P0! W! P0! A! P0!', [('open_gate', 0), ('wait_gate', 5), ('rewake', 0)]
    if st == 'stale_drain':
        return [T('A', ('future_desync', 0, {'fut': ('gate', 0), 'as': 'fA'}), ('block_on', 'fA'), ('open_gate', 5))], 0, 1, 'A! W! A!', [('open_gate', 0), ('wait_gate', 5), ('rewake', 0)]
    raise KeyError(st)

def state_matrix(prop, oracles_for, want=None, R=3, B=16, kinds=('desync', 'sync', 'try', 'fdes_await', 'fsync'), rewake=False):
    L = []
    for st in SMX_STATES:
        for kb in kinds:
            if want is not None and not want(st, kb): continue
            ths, P, nq, setup, ev = smx_setup(st)
            # repeated wake-up: the event source fires a kept clone of the same waker a second time, at a solver-chosen later point
            if rewake and ('open_gate', 0) in ev and ('rewake', 0) not in ev: ev = ev + [('rewake', 0)]
            opsb, gb = mx_ops(kb, 'B', 0, 2)
            heavy = kb in ('fdes_await', 'fsync')
            orc = tuple(oracles_for(st, kb, P))
            if P == 0 and (heavy or st in ('wfp',)): orc = tuple(o for o in orc if o not in ('deadlock', 'quiescent_complete', 'fut_results'))
            if st == 'suspended': orc = tuple(o for o in orc if o != 'order') + ('suspend',)
            # resuming needs three rounds (W opens the gate, A resumes, the pool thread runs the held work, B returns); four did not finish in an hour
            L.append(S('%s_smx_%s_%s%s' % (prop.lower(), st, kb, '_rw' if rewake else ''), ths + [T('B', *opsb), T('W', *ev)], pool_max=P, queues=nq, R=(3 if st == 'suspended' else R), B=B + (4 if heavy else 0), setup=setup, oracles=orc, cap=(4 if kb == 'fsync' else 3)))
    return L

def rotate_orders(L, seed):
    """Opt-in (VERIF_ROTATE=1 together with VERIF_SEED = k > 0): generic scenarios run with the round-robin thread order rotated by k and ONE
    MORE round, so that every schedule covered at seed 0 is still covered (R rounds in the original order embed into R+1 rotated rounds) and
    further ones are added.  Without VERIF_ROTATE the seed does not change the set of schedules: the deciding step is the solver's verdict
    over all schedules within the bounds, there is nothing to sample.  (The first version rotated on VERIF_SEED alone and kept R: R = 2
    scenarios then had no completing schedule at all and came back INCONCLUSIVE -- seen in a `vp check` run with VERIF_SEED=1.)"""
    import os
    if not seed or os.environ.get('VERIF_ROTATE') != '1': return L
    for s_ in L:
        if s_.get('setup_info'):
            pre, names, R_ = s_['setup_info']; k = seed % len(names)
            if k:
                s_['seq'] = pre + (R_ + 1) * (names[k:] + names[:k]); s_['R'] = len(s_['seq'])
                s_['bounds'] = dict(s_['bounds'], slot_sequence=' '.join(s_['seq']))
            continue
        if s_['seq'] is None and s_['order'] is None:
            sc_ = s_['scen']; n = len([t for t in sc_['threads'] if not t.get('final')]) + sc_.get('pool_slots', sc_['pool_max']); k = seed % n
            if k:
                s_['order'] = [(j + k) % n for j in range(n)]; s_['R'] = s_['R'] + 1; s_['bounds'] = dict(s_['bounds'], thread_order=s_['order'], R=s_['R'])
    return L

def bounds_text(prop, tier):
    sc = scenarios(prop, tier)
    return {s['name']: s['bounds'] for s in sc}
