# Scenario families, bounds and oracles per property and tier.
import itertools

ASSUMPTIONS = [
    'sequentially consistent memory; every shared access of desync is behind a Mutex, an atomic id counter or a modelled primitive',
    'native models (trusted): std Mutex/MutexGuard (no poisoning unless a panic unwinds), Condvar without spurious wake-ups, thread park/unpark (one token), '
    'Builder::spawn/JoinHandle, mpsc channel (FIFO), Arc/Weak counts, Box, Option/Result combinators, Vec/VecDeque as length + CAP slots, AtomicU64 ids',
    'futures: oneshot channel as one atomic object (its lock-free internals assumed linearisable), Waker/ArcWake dispatch to the real wake_by_ref MIR, Context',
    'lazy_static SCHEDULER replaced by an eagerly built Scheduler::new() whose initial_max_threads() returns the scenario pool maximum',
    'Arc<JobQueue>, Arc<SchedulerCore>, the schedule Arc and Arc<Scheduler> are pinned (the harness keeps a reference for the whole run)',
    'context switches only immediately before visible operations (lock, try_lock, wait, notify, park, unpark, send, recv, spawn, join, oneshot ops, harness events); '
    'code between two visible operations is thread-local or protected by the locks held',
    'fmt/format! bodies are empty; panics of library code end the thread (no unwinding) outside the C15 scenarios',
    'outside the claim: schedules needing more rounds than R or more steps per slot than B, containers above CAP, more threads/operations than the scenarios, weak memory, allocation failure',
]

def T(name, *ops, **kw):
    d = {'name': name, 'ops': list(ops)}; d.update(kw); return d

def S(name, threads, pool_max=0, queues=1, R=3, B=14, oracles=(), order=None, pool_slots=None, cap=3):
    sc = {'name': name, 'pool_max': pool_max, 'queues': queues, 'threads': threads}
    if pool_slots is not None: sc['pool_slots'] = pool_slots
    return {'name': name, 'scen': sc, 'R': R, 'B': B, 'oracles': list(oracles), 'order': order, 'cap': cap,
            'bounds': {'R': R, 'B': B, 'CAP': cap, 'threads': len(threads) + (pool_slots if pool_slots is not None else pool_max), 'pool_max': pool_max}}

BASE = ('panic', 'overlap', 'ran_twice')

def scenarios(prop, tier, seed=0):
    q = tier == 'quick'
    L = []
    if prop == 'C09':
        L.append(S('c09_p0_sync_try_desync', [T('A', ('sync', 0)), T('B', ('try_sync', 0)), T('C', ('desync', 0)), T('Z', ('sync', 0), final=True)],
                   pool_max=0, R=3, B=12, oracles=BASE + ('results', 'deadlock', 'order')))
        L.append(S('c09_p0_try_try_sync', [T('A', ('try_sync', 0)), T('B', ('try_sync', 0)), T('C', ('sync', 0)), T('Z', ('try_sync', 0, {'probe': True}), final=True)],
                   pool_max=0, R=3, B=12, oracles=BASE + ('results', 'deadlock', 'final_try_sync')))
        L.append(S('c09_p1_desync_try', [T('A', ('desync', 0)), T('B', ('try_sync', 0))],
                   pool_max=1, R=3, B=14, oracles=BASE + ('results', 'deadlock', 'quiescent_complete', 'order')))
        L.append(S('c09_p1_sync_try_desync', [T('A', ('sync', 0)), T('B', ('try_sync', 0)), T('C', ('desync', 0))],
                   pool_max=1, R=3, B=14, oracles=BASE + ('results', 'deadlock', 'quiescent_complete')))
    elif prop == 'C03':
        L.append(S('c03_p1_two_queues', [T('A', ('desync', 0)), T('B', ('desync', 1))], pool_max=1, queues=2, R=3, B=16,
                   oracles=BASE + ('deadlock', 'quiescent_complete')))
        L.append(S('c03_p1_desync_desync_sync', [T('A', ('desync', 0), ('desync', 0)), T('B', ('sync', 0))], pool_max=1, R=3, B=16,
                   oracles=BASE + ('deadlock', 'quiescent_complete', 'results')))
        L.append(S('c03_p1_sync_try_desync', [T('A', ('sync', 0)), T('B', ('try_sync', 0)), T('C', ('desync', 0))], pool_max=1, R=3, B=14,
                   oracles=BASE + ('deadlock', 'quiescent_complete')))
    elif prop == 'C04':
        L.append(S('c04_p0_sync_sync_desync', [T('A', ('sync', 0)), T('B', ('sync', 0)), T('C', ('desync', 0))], pool_max=0, R=3, B=14,
                   oracles=BASE + ('results', 'deadlock')))
        L.append(S('c04_p1_desync_sync', [T('A', ('desync', 0)), T('B', ('sync', 0))], pool_max=1, R=3, B=16,
                   oracles=BASE + ('results', 'deadlock', 'quiescent_complete')))
        L.append(S('c04_p1_gate_desync_sync', [T('A', ('desync', 0, {'acts': ['enter', ('gate', 0), 'exit']})), T('B', ('sync', 0)), T('W', ('open_gate', 0))],
                   pool_max=1, R=3, B=16, oracles=BASE + ('results', 'deadlock')))
    elif prop == 'C01':
        L.append(S('c01_p1_desync_sync_try', [T('A', ('desync', 0)), T('B', ('sync', 0)), T('C', ('try_sync', 0))], pool_max=1, R=3, B=14,
                   oracles=BASE + ('deadlock',)))
        L.append(S('c01_p1_desync2_sync', [T('A', ('desync', 0), ('desync', 0)), T('B', ('sync', 0))], pool_max=1, R=3, B=16,
                   oracles=BASE + ('deadlock',)))
        L.append(S('c01_p0_sync_sync_try', [T('A', ('sync', 0)), T('B', ('sync', 0)), T('C', ('try_sync', 0))], pool_max=0, R=3, B=14,
                   oracles=BASE + ('deadlock',)))
    elif prop == 'C02':
        L.append(S('c02_p1_desync_desync_sync', [T('A', ('desync', 0), ('desync', 0)), T('B', ('sync', 0))], pool_max=1, R=3, B=16,
                   oracles=BASE + ('order', 'deadlock')))
        L.append(S('c02_p0_sync_desync_sync', [T('A', ('sync', 0)), T('B', ('desync', 0), ('sync', 0))], pool_max=0, R=3, B=16,
                   oracles=BASE + ('order', 'deadlock')))
        L.append(S('c02_p1_desync_try_sync', [T('A', ('desync', 0), ('try_sync', 0)), T('B', ('sync', 0))], pool_max=1, R=3, B=16,
                   oracles=BASE + ('order', 'deadlock')))
    elif prop == 'C10':
        L.append(S('c10_p2_gate_other', [T('A', ('desync', 0, {'acts': ['enter', ('gate', 0), 'exit']})), T('B', ('desync', 1))], pool_max=2, queues=2, R=3, B=16,
                   oracles=BASE + ('independent',)))
    elif prop == 'C17':
        L.append(S('c17_p1_two_spawners', [T('A', ('desync', 0)), T('B', ('desync', 1))], pool_max=1, pool_slots=2, queues=2, R=3, B=16,
                   oracles=BASE + ('pool_max', 'deadlock')))
        L.append(S('c17_p0_no_threads', [T('A', ('desync', 0)), T('B', ('sync', 0))], pool_max=0, pool_slots=1, R=2, B=16,
                   oracles=BASE + ('pool_max', 'deadlock')))
    return L

def bounds_text(prop, tier):
    sc = scenarios(prop, tier)
    return {s['name']: s['bounds'] for s in sc}
