# Property oracles: each returns a list of (clause name, guard) -- the property is violated iff some guard is
# satisfiable.  They are formulas over the ghost state and final predicates of a World after `run`.
from .expr import *
from .values import *
from .scen import NONE_T

def queue_core(w, q):
    """(state discriminant, queue length) of job queue q in the final heap"""
    m = w.m
    arc = m.load(Ref.to(w.globals[1 + q]), TRUE)
    jq = m.load(arc.f['p'].proj(('f', 'data')), TRUE)       # JobQueue { core: Mutex<JobQueueCore> }
    core = jq.f[0].f['data']                                # JobQueueCore { queue, state, wake_blocked }
    return core.f[1].disc, core.f[0].f['len'], jq.f[0].f['locked']

def o_overlap(w):
    return [(n, g) for n, g in w.m.violations if n.startswith('overlap')]

def o_ran_twice(w):
    return [(n, g) for n, g in w.m.violations if n.startswith('ran-twice')]

def o_pool_max(w):
    return [(n, g) for n, g in w.m.violations if n.startswith('pool-exceeds-max')]

def o_deadlock(w):
    return [('deadlock', w.deadlock)]

def o_panic(w):
    return [('panic:t%d:%s' % (tid, wh), g) for tid, wh, g in w.m.panics]

def o_quiescent_complete(w):
    """at quiescence every accepted operation has run exactly once and every queue is Idle and empty"""
    out = []
    for op in w.ops.values():
        n = w.ghost.get('nrun%d' % op['opid'], ZERO)
        if op.get('must_panic') or op.get('panics'): continue
        if op['kind'] in ('future_desync', 'after'):
            out.append(('stranded-future-op:op%d(%s by %s)' % (op['opid'], op['kind'], op['thread']), And(w.quiescent, Or(Ne(n, ONE), Eq(w.ghost.get('end%d' % op['opid'], NONE_T), NONE_T)))))
        elif op['kind'] in ('desync', 'sync'):
            out.append(('stranded:op%d(%s by %s)' % (op['opid'], op['kind'], op['thread']), And(w.quiescent, Ne(n, ONE))))
        elif op['kind'] == 'try_sync':
            res = w.ghost.get('res%d' % op['opid'])
            if isinstance(res, En): out.append(('try_sync-ok-not-run:op%d' % op['opid'], And(w.quiescent, Eq(res.disc, ZERO), Ne(n, ONE))))
    for q in range(w.scen.get('queues', 1)):
        st, ln, lk = queue_core(w, q)
        out.append(('queue%d-not-idle-at-quiescence' % q, And(w.quiescent, Ne(st, ZERO))))
        out.append(('queue%d-not-empty-at-quiescence' % q, And(w.quiescent, Ne(ln, ZERO))))
    return out

def o_results(w):
    """sync / try_sync return the value of their own closure, which ran exactly once between call and return"""
    out = []
    for op in w.ops.values():
        k = op['opid']; kind = op['kind']
        if kind not in ('sync', 'try_sync'): continue
        ret = w.ghost.get('ret%d' % k, NONE_T); returned = Ne(ret, NONE_T)
        res = w.ghost.get('res%d' % k)
        n = w.ghost.get('nrun%d' % k, ZERO)
        start = w.ghost.get('start%d' % k, NONE_T); end = w.ghost.get('end%d' % k, NONE_T); inv = w.ghost.get('inv%d' % k, NONE_T)
        tok = BV(op['tok'])
        if kind == 'sync':
            if isinstance(res, E):
                out.append(('sync-wrong-value:op%d' % k, And(returned, Ne(res, tok))))
            out.append(('sync-closure-not-once:op%d' % k, And(returned, Ne(n, ONE))))
            out.append(('sync-closure-outside-call:op%d' % k, And(returned, Or(Ult(start, inv), Ult(ret, end), Eq(end, NONE_T)))))
        else:
            if isinstance(res, En):
                ok = Eq(res.disc, ZERO)
                val = res.vars.get(0).f.get(0) if res.vars.get(0) is not None else None
                out.append(('try_sync-busy-but-ran:op%d' % k, And(returned, Not(ok), Ne(n, ZERO))))
                out.append(('try_sync-ok-not-once:op%d' % k, And(returned, ok, Ne(n, ONE))))
                if isinstance(val, E): out.append(('try_sync-wrong-value:op%d' % k, And(returned, ok, Ne(val, tok))))
                out.append(('try_sync-closure-outside-call:op%d' % k, And(returned, ok, Or(Ult(start, inv), Ult(ret, end), Eq(end, NONE_T)))))
    return out

def o_order(w):
    """ret(a) < inv(b) on the same object  =>  end(a) <= start(b)   (for operations that ran)"""
    out = []
    ops = list(w.ops.values())
    for a in ops:
        for b in ops:
            if a is b or a['obj'] != b['obj']: continue
            ka, kb = a['opid'], b['opid']
            reta = w.ghost.get('ret%d' % ka, NONE_T); invb = w.ghost.get('inv%d' % kb, NONE_T)
            enda = w.ghost.get('end%d' % ka, NONE_T); startb = w.ghost.get('start%d' % kb, NONE_T)
            # a accepted: desync/sync always; try_sync only if it returned Ok
            acc = TRUE
            if a['kind'] == 'try_sync':
                res = w.ghost.get('res%d' % ka)
                acc = Eq(res.disc, ZERO) if isinstance(res, En) else FALSE
            if a['tindex'] == b['tindex']:
                before = BoolC(a['idx'] < b['idx'])
                if before is FALSE: continue
                before = And(Ne(reta, NONE_T), Ne(invb, NONE_T))
            else:
                before = And(Ne(reta, NONE_T), Ne(invb, NONE_T), Ult(reta, invb))
            ranb = Ne(startb, NONE_T)
            out.append(('order:op%d-before-op%d' % (ka, kb), And(acc, before, ranb, Or(Eq(enda, NONE_T), Ult(startb, enda)))))
    return out

def o_final_try_sync(w):
    """a probe try_sync issued at quiescence must succeed (C09: once nothing is queued or in progress)"""
    out = []
    for op in w.ops.values():
        if op.get('probe') and op['kind'] == 'try_sync':
            res = w.ghost.get('res%d' % op['opid'])
            # the probe runs in the final phase, in which pool threads no longer move: "pool idle at the end" is therefore "pool idle when the
            # probe was made" (a Busy try_sync does not wake anybody).  Without that conjunct a pool thread that has finished the last job but
            # not yet released the queue (still inside JobQueue::drain when its step budget ran out) made the probe Busy: a false alarm of the
            # oracle found with c09_p1_stale_wake_try on the unchanged tree, corrected here
            if isinstance(res, En): out.append(('probe-try_sync-busy:op%d' % op['opid'], And(w.quiescent, Ne(w.ghost.get('ret%d' % op['opid'], NONE_T), NONE_T), Ne(res.disc, ZERO))))
    return out

def o_fut_results(w):
    """a future returned by future_desync/future_sync resolves once, to Ok(value of its own operation), not before the operation finished"""
    out = []
    for op in w.ops.values():
        if op['kind'] not in ('future_desync', 'future_sync'): continue
        k = op['opid']
        fret = w.ghost.get('fret%d' % k, NONE_T); res = w.ghost.get('fres%d' % k); resolved = Ne(fret, NONE_T)
        end = w.ghost.get('end%d' % k, NONE_T); n = w.ghost.get('nrun%d' % k, ZERO)
        nready = w.ghost.get('nready%d' % k, ZERO)
        out.append(('future-resolved-twice:op%d' % k, Ugt(nready, ONE)))
        out.append(('future-resolved-before-op-finished:op%d' % k, And(resolved, Or(Eq(end, NONE_T), Ult(fret, end), Ne(n, ONE)))))
        if isinstance(res, En):
            out.append(('future-not-ok:op%d' % k, And(resolved, Ne(res.disc, ZERO))))
            pay = res.vars.get(0)
            val = pay.f.get(0) if pay is not None else None
            if isinstance(val, E) and val.sort == 'V': out.append(('future-wrong-value:op%d' % k, And(resolved, Eq(res.disc, ZERO), Ne(val, BV(op['tok'])))))
    return out

def o_suspend(w):
    """once suspend() resolved, everything scheduled before it has completed and nothing scheduled after it starts until resumed"""
    out = []
    for sop in w.ops.values():
        if sop['kind'] != 'suspend': continue
        k = sop['opid']
        fret = w.ghost.get('fret%d' % k, NONE_T); resumed = w.ghost.get('resumed%d' % k, NONE_T)
        for o in w.ops.values():
            if o['obj'] != sop['obj'] or o is sop or o['kind'] == 'suspend': continue
            ko = o['opid']
            start = w.ghost.get('start%d' % ko, NONE_T); end = w.ghost.get('end%d' % ko, NONE_T)
            before = o['tindex'] == sop['tindex'] and o['idx'] < sop['idx']
            after = o['tindex'] == sop['tindex'] and o['idx'] > sop['idx']
            if before:
                out.append(('suspend-resolved-before-earlier-op-finished:op%d' % ko, And(Ne(fret, NONE_T), Or(Eq(end, NONE_T), Ult(fret, end)))))
            if after:
                out.append(('op-ran-while-suspended:op%d' % ko, And(Ne(fret, NONE_T), Ne(start, NONE_T), Or(Eq(resumed, NONE_T), Ult(start, resumed)), Uge(start, fret))))
                out.append(('op-overtook-suspend:op%d' % ko, And(Ne(start, NONE_T), Ne(fret, NONE_T), Ult(start, fret))))
            if o['tindex'] != sop['tindex']:
                # an operation of another thread whose scheduling call was made after the suspend future resolved (real-time order) must not start
                # before the resumer is used or dropped ("sync calls made during the suspension wait rather than overtake")
                inv = w.ghost.get('inv%d' % ko, NONE_T)
                out.append(('op-of-other-thread-ran-while-suspended:op%d' % ko, And(Ne(fret, NONE_T), Ne(inv, NONE_T), Ult(fret, inv), Ne(start, NONE_T), Or(Eq(resumed, NONE_T), Ult(start, resumed)))))
    return out

def o_cancelled_clean(w):
    """a dropped future_sync never leaves its operation half-visible: either the closure never ran, or its future was destroyed"""
    out = []
    for op in w.ops.values():
        if op['kind'] != 'future_sync': continue
        k = op['opid']
        dropped = w.ghost.get('fdropped%d' % k, NONE_T)
        n = w.ghost.get('nrun%d' % k, ZERO); end = w.ghost.get('end%d' % k, NONE_T)
        out.append(('dropped-future_sync-op-still-open:op%d' % k, And(Ne(dropped, NONE_T), Ugt(n, ZERO), Eq(end, NONE_T))))
        out.append(('future_sync-ran-after-drop:op%d' % k, And(Ne(dropped, NONE_T), Ne(w.ghost.get('start%d' % k, NONE_T), NONE_T), Ult(dropped, w.ghost.get('start%d' % k, NONE_T)))))
    return out

def o_memory(w):
    """no access to the protected value or to job storage after it was released; the value is dropped exactly once"""
    out = [(n, g) for n, g in w.m.violations if n.startswith(('use-after', 'double-free', 'value-dropped-twice'))]
    # a pipe (unlike pipe_in) holds a *strong* reference: the caller dropping its own Arc does not destroy the Desync, the release is checked
    # at quiescence by the pipe_closed oracle instead (asking it here was a false alarm of the oracle: C16 candidates that never reproduced)
    strong = set(pp['var'] for pp in getattr(w, 'pipes', []) if 'consumer' in pp)
    for name, cid in getattr(w, 'canaries', {}).items():
        if name in strong: continue
        de = w.ghost.get('dropend%d' % cid, NONE_T); n = w.ghost.get('ndrop%d' % cid, ZERO)
        out.append(('value-not-dropped-once-after-drop-returned:canary%d' % cid, And(Ne(de, NONE_T), Ne(n, ONE))))
    return out

def o_drop_waits(w):
    """Desync::drop returns only after every operation scheduled before it has finished, and frees the value after them"""
    out = []
    for name, cid in getattr(w, 'canaries', {}).items():
        db = w.ghost.get('dropbegin%d' % cid, NONE_T); de = w.ghost.get('dropend%d' % cid, NONE_T); fa = w.ghost.get('freed_at%d' % cid, NONE_T)
        for op in w.ops.values():
            if op['obj'] != 10 + cid: continue
            k = op['opid']
            ret = w.ghost.get('ret%d' % k, NONE_T); end = w.ghost.get('end%d' % k, NONE_T)
            sched_before = And(Ne(ret, NONE_T), Ne(db, NONE_T), Ule(ret, db))
            accepted = TRUE
            if op['kind'] == 'try_sync':
                res = w.ghost.get('res%d' % k); accepted = Eq(res.disc, ZERO) if isinstance(res, En) else FALSE
            out.append(('drop-returned-before-op-finished:op%d' % k, And(sched_before, accepted, Ne(de, NONE_T), Or(Eq(end, NONE_T), Ult(de, end)))))
            out.append(('value-freed-before-op-finished:op%d' % k, And(sched_before, accepted, Ne(fa, NONE_T), Or(Eq(end, NONE_T), Ult(fa, end)))))
    return out

def o_panic_unexpected(w):
    """library panics other than the ones the scenario provokes (the panicking job, operations on the panicked object)"""
    allowed = set(w.scen.get('expect_panic', []))
    names = {t.tid: t.name for t in w.m.threads}
    out = []
    for tid, wh, g in w.m.panics:
        nm = names.get(tid, '?')
        if nm in allowed or (nm.startswith('P') and 'pool' in allowed): continue
        out.append(('panic:%s:%s' % (nm, wh), g))
    return out

def o_panic_contained(w):
    """after a job panicked: operations marked must_panic never run their closure and never return normally; the object is marked panicked"""
    out = []
    for op in w.ops.values():
        k = op['opid']
        if op.get('must_panic'):
            n = w.ghost.get('nrun%d' % k, ZERO); ret = w.ghost.get('ret%d' % k, NONE_T)
            out.append(('op-on-panicked-object-ran:op%d' % k, Ugt(n, ZERO)))
            out.append(('op-on-panicked-object-returned-normally:op%d' % k, Ne(ret, NONE_T)))
    # the panicked objects end up marked Panicked; the healthy ones are fully usable: everything scheduled on them ran once, queues idle and empty
    vs = [v for k, v in w.prog.enums.items() if 'Panicked' in v and 'WaitingForUnpark' in v]
    PAN = BV(vs[0].index('Panicked'))
    sick = set(op['obj'] for op in w.ops.values() if op.get('panics'))
    for q in range(w.scen.get('queues', 1)):
        st, ln, lk = queue_core(w, q)
        if q in sick:
            out.append(('panicked-queue%d-not-marked-panicked' % q, And(w.quiescent, Ne(st, PAN))))
        else:
            out.append(('healthy-queue%d-not-idle-at-quiescence' % q, And(w.quiescent, Ne(st, ZERO))))
            out.append(('healthy-queue%d-not-empty-at-quiescence' % q, And(w.quiescent, Ne(ln, ZERO))))
    for op in w.ops.values():
        if op['obj'] in sick or op['kind'] not in ('desync', 'sync'): continue
        n = w.ghost.get('nrun%d' % op['opid'], ZERO)
        out.append(('healthy-op-stranded:op%d(%s by %s)' % (op['opid'], op['kind'], op['thread']), And(w.quiescent, Ne(n, ONE))))
    return out

def o_pipe_in(w):
    """pipe_in: items processed once, in stream order, one at a time; everything available is processed at quiescence; stream and closure are
    released when the stream ends or at the first stream event after the Desync is gone; the pipe does not keep the Desync alive"""
    out = []
    Q = w.quiescent
    for pid, pp in enumerate(w.pipes):
        base, n = pp['base'], pp['n']
        G = lambda nm, k, d: w.ghost.get('%s%d' % (nm, k), d)
        for a in range(n):
            for b in range(a + 1, n):
                sb = G('start', base + b, NONE_T); ea = G('end', base + a, NONE_T)
                out.append(('pipe%d-item%d-started-before-item%d-finished' % (pid, b, a), And(Ne(sb, NONE_T), Or(Eq(ea, NONE_T), Not(Ult(ea, sb))))))
        cid = w.canaries[pp['var']]
        dropend = G('dropend', cid, NONE_T); gone = Ne(dropend, NONE_T)
        hasdrop = any(op[0] == 'p_drop' and op[1] == pp['var'] for th in w.scen['threads'] for op in th['ops'])
        if not hasdrop: gone = FALSE
        allopen = TRUE
        for k in range(n):
            gk = pp['gates'][k]
            allopen = And(allopen, TRUE if gk == 99 else G('gate', gk, FALSE))
            nr = G('nrun', base + k, ZERO); en = G('end', base + k, NONE_T)
            out.append(('pipe%d-item%d-available-but-not-processed-at-quiescence' % (pid, k), And(Q, Not(gone), allopen, Or(Ne(nr, ONE), Eq(en, NONE_T)))))
        for f_, what in ((2 * pid, 'stream'), (2 * pid + 1, 'closure')):
            nd = G('flagdrop', f_, ZERO)
            if pp['ends']:
                out.append(('pipe%d-ended-but-%s-not-released' % (pid, what), And(Q, Not(gone), allopen, Ne(nd, ONE))))
            if hasdrop:
                late = FALSE
                for gk in pp['gates']:
                    if gk == 99: continue
                    at = G('gateopen_at', gk, NONE_T)
                    late = Or(late, And(G('gatewoke', gk, FALSE), Ne(at, NONE_T), Ult(dropend, at)))
                out.append(('pipe%d-%s-not-released-at-stream-event-after-desync-gone' % (pid, what), And(Q, gone, late, Ne(nd, ONE))))
        if hasdrop:
            out.append(('pipe%d-keeps-desync-alive' % pid, And(Q, gone, Ne(G('ndrop', cid, ZERO), ONE))))
    out += [(n_, g) for n_, g in w.m.violations if n_.startswith('dropped-twice:flag')]
    return out

def o_pipe_out(w):
    """pipe: the consumer receives exactly one output per input, in input order, then the end of the stream"""
    out = []
    for pid, pp in enumerate(w.pipes):
        if 'consumer' not in pp: continue
        base, n = pp['base'], pp['n']
        for j, op in enumerate(pp['consumer']):
            ret = w.ghost.get('ret%d' % op, NONE_T); got = w.ghost.get('sgot%d' % op, NONE_T); val = w.ghost.get('sval%d' % op, NONE_T)
            returned = Ne(ret, NONE_T)
            if j < n:
                out.append(('pipe%d-output%d-missing-stream-ended-early' % (pid, j), And(returned, Ne(got, ONE))))
                out.append(('pipe%d-output%d-wrong-value' % (pid, j), And(returned, Eq(got, ONE), Ne(val, BV(40 + base + j)))))
                out.append(('pipe%d-output%d-before-its-input-was-processed' % (pid, j), And(returned, Eq(w.ghost.get('end%d' % (base + j), NONE_T), NONE_T))))
            else:
                out.append(('pipe%d-output-beyond-inputs' % pid, And(returned, Ne(got, ZERO))))
    return out

def o_pipe_closed(w):
    """dropping the output stream shuts the pipe down: once the caller's own reference is gone too, the Desync is freed and the input stream and closure are dropped"""
    out = []
    Q = w.quiescent
    for pid, pp in enumerate(w.pipes):
        if 'consumer' not in pp: continue
        cid = w.canaries[pp['var']]
        sd = Ne(w.ghost.get('sdropped%d' % pid, NONE_T), NONE_T); gone = Ne(w.ghost.get('dropend%d' % cid, NONE_T), NONE_T)
        out.append(('pipe%d-still-holds-desync-after-output-dropped' % pid, And(Q, sd, gone, Ne(w.ghost.get('ndrop%d' % cid, ZERO), ONE))))
        for f_, what in ((2 * pid, 'input-stream'), (2 * pid + 1, 'closure')):
            out.append(('pipe%d-%s-not-released-after-output-dropped' % (pid, what), And(Q, sd, gone, Ne(w.ghost.get('flagdrop%d' % f_, ZERO), ONE))))
    out += [(n_, g) for n_, g in w.m.violations if n_.startswith('dropped-twice:flag')]
    return out

def o_independent(w):
    """with the gates never opened, whenever no thread can move every un-gated operation has completed"""
    out = []
    for op in w.ops.values():
        if op.get('gated') or op['kind'] not in ('desync', 'sync'): continue
        n = w.ghost.get('nrun%d' % op['opid'], ZERO)
        out.append(('blocked-by-other-object:op%d' % op['opid'], And(w.norun, Ne(n, ONE))))
    return out

ORACLES = {'independent': o_independent, 'pipe_in': o_pipe_in, 'pipe_out': o_pipe_out, 'pipe_closed': o_pipe_closed, 'panic_unexpected': o_panic_unexpected, 'panic_contained': o_panic_contained, 'memory': o_memory, 'drop_waits': o_drop_waits, 'fut_results': o_fut_results, 'suspend': o_suspend, 'cancelled_clean': o_cancelled_clean, 'overlap': o_overlap, 'ran_twice': o_ran_twice, 'pool_max': o_pool_max, 'deadlock': o_deadlock, 'panic': o_panic,
           'quiescent_complete': o_quiescent_complete, 'results': o_results, 'order': o_order, 'final_try_sync': o_final_try_sync}
