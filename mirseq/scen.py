# Scenario layer: generates the harness side of a scenario as MIR text (thread bodies, job closures,
# user futures), installs the ghost/oracle natives, and drives the bounded round-robin sequentialisation.
import re, time, itertools
from .expr import *
from .values import *
from . import mirparse as mp
from .engine import Machine, Program, Native, FnNative, Dispatch, EncodeError, END, PANIC, State
from .natives import Natives, Some, NoneV, Ok, Err, Ready, Pending, payload, OPT, RES, POLL
from .prelude import prelude_text, PRELUDE_TRAIT, FUTURES_TEXT

NONE_T = BV((1 << W) - 1)       # "has not happened" time stamp

def load_program(mirtext, srcdir, cap):
    fns = mp.parse(mirtext)
    enums = mp.load_enums(srcdir)
    impls = mp.impl_self_types(fns, srcdir)
    prog = Program(fns, enums, impls)
    pre = mp.parse(prelude_text(cap) + FUTURES_TEXT, origin='prelude')
    for name, l in pre.items():
        for f in l:
            f.origin = 'prelude'; prog.add_fn(f)
    for k, n in PRELUDE_TRAIT.items(): prog.traitm[k] = prog.byname[n]
    prog.traitm[('Future', 'OneReceiver', 'poll')] = prog.byname['prelude::oneshot_recv_poll']
    return prog

class World(object):
    """one scenario instance: program + machine + ghost state"""
    def __init__(s, prog, scen, cap=3):
        s.prog = prog; s.scen = scen
        s.nat = Natives(prog)
        s.nat.install_futures()
        s.m = Machine(prog, s.nat, cap)
        s.m.world = s
        s.m.census_spawn = s.census_spawn; s.m.census_join = s.census_join
        s.m.on_thread_exit = s.on_thread_exit
        s.ghost = {}
        s.ops = {}          # opid -> dict(thread, obj, kind, idx)
        s.globals = {}
        s.gates = {}
        s.live_pool = ZERO      # census of spawned-and-not-joined pool threads
        s.install_natives()
    # ------------------------------------------------------------------ ghost helpers
    def g(s, name, default=None):
        v = s.ghost.get(name)
        return v if v is not None else default
    def gset(s, name, val, guard, default):
        old = s.ghost.get(name, default)
        s.ghost[name] = Ite(guard, val, old)
    def census_spawn(s, t, g):
        s.live_pool = Ite(g, Add(s.live_pool, ONE), s.live_pool)
        mx = s.current_max()
        s.m.violate('pool-exceeds-max', And(g, Ugt(s.live_pool, mx)))
        s.gset('spawned', TRUE, g, FALSE)
    def census_join(s, h, g):
        s.live_pool = Ite(g, Sub(s.live_pool, ONE), s.live_pool)
    def on_thread_exit(s, th, g): pass
    def current_max(s):
        sch = s.globals.get('scheduler')
        if sch is None: return BV(s.scen.get('pool_max', 0))
        # Scheduler { core: Arc<SchedulerCore{ schedule, threads, max_threads: Mutex<usize> }> }
        m = s.m
        core = m.load(Ref.to(sch), TRUE)
        try:
            inner = m.load(core.f['p'].proj(('f', 'data')), TRUE)       # Scheduler
            sc = m.load(inner.f[0].f['p'].proj(('f', 'data')), TRUE)    # SchedulerCore
            return sc.f[2].f['data']
        except Exception:
            return BV(s.scen.get('pool_max', 0))
    # ------------------------------------------------------------------ natives of the harness
    def install_natives(s):
        R = s.nat.reg; m = s.m
        def set_global(mm, th, a, g):
            k = a[0].val
            c = mm.alloc(None, ('global', k), 'global%d' % k)
            mm.store(Ref.to(c), a[1], g)
            s.globals[k] = c
            if k == 0: s.globals['scheduler'] = c
            return UNIT
        R('__set_global', set_global)
        def scheduler(mm, th, a, g):
            c = s.globals['scheduler']
            arc = mm.load(Ref.to(c), g)
            return arc.f['p'].proj(('f', 'data'))
        R('desync_scheduler::scheduler', scheduler)
        R('initial_max_threads', lambda mm, th, a, g: BV(s.scen.get('pool_max', 0)))
        def op_inv(mm, th, a, g):
            s.gset('inv%d' % a[0].val, BV(mm.now), g, NONE_T); return UNIT
        R('__op_inv', op_inv)
        def op_done(mm, th, a, g):
            op = a[0].val
            s.gset('ret%d' % op, BV(mm.now), g, NONE_T)
            s.ghost['res%d' % op] = merge(g, a[1], s.ghost.get('res%d' % op))
            return UNIT
        R('__op_done', op_done)
        def enter(mm, th, a, g):
            obj = a[0].val; op = a[1].val
            occ = s.ghost.get('occ%d' % obj, ZERO)
            mm.violate('overlap:obj%d:op%d' % (obj, op), And(g, Ugt(occ, ZERO)))
            s.ghost['occ%d' % obj] = Ite(And(g, Ult(occ, BV(3))), Add(occ, ONE), occ)
            n = s.ghost.get('nrun%d' % op, ZERO)
            mm.violate('ran-twice:op%d' % op, And(g, Ugt(n, ZERO)))
            s.ghost['nrun%d' % op] = Ite(And(g, Ult(n, BV(3))), Add(n, ONE), n)
            s.gset('start%d' % op, BV(mm.now), g, NONE_T)
            s.gset('runner%d' % op, BV(th.tid), g, NONE_T)
            return UNIT
        R('__enter', enter)
        def exit_(mm, th, a, g):
            obj = a[0].val; op = a[1].val
            occ = s.ghost.get('occ%d' % obj, ZERO)
            s.ghost['occ%d' % obj] = Ite(And(g, Ugt(occ, ZERO)), Sub(occ, ONE), occ)
            s.gset('end%d' % op, BV(mm.now), g, NONE_T)
            return UNIT
        R('__exit', exit_)
        R('__yield', lambda mm, th, a, g: UNIT, visible=True)
        def gate_en(mm, th, a, ph, g): return s.ghost.get('gate%d' % a[0].val, FALSE)
        R('__gate_wait', lambda mm, th, a, g: UNIT, visible=True, enabled=gate_en)
        def gate_open(mm, th, a, g):
            s.gset('gate%d' % a[0].val, TRUE, g, FALSE); return UNIT
        R('__gate_open', gate_open, visible=True)
        def await_all_en(mm, th, a, ph, g):
            out = TRUE
            for t in mm.threads:
                if t.role == 'caller' and t is not th and not t.final: out = And(out, t.finished)
            return out
        R('__await_callers', lambda mm, th, a, g: UNIT, visible=True, enabled=await_all_en)
        def vec_elem_ref(mm, th, a, g): return a[0].proj(('f', a[1].val))
        R('__vec_elem_ref', vec_elem_ref)
        def vec_compact(mm, th, a, g):
            vec = a[0]; keeps = a[1:]
            n = mm.load(vec.proj(('f', 'len')), g)
            elems = [mm.load(vec.proj(('f', k)), g) for k in range(mm.CAP)]
            # new index of element k = number of kept elements before it
            newlen = ZERO; outs = [None] * mm.CAP
            for k in range(mm.CAP):
                live = And(Ult(BV(k), n), keeps[k])
                for j in range(k + 1):
                    outs[j] = merge(And(live, Eq(newlen, BV(j))), elems[k], outs[j])
                newlen = Ite(live, Add(newlen, ONE), newlen)
            for k in range(mm.CAP):
                if outs[k] is not None: mm.store(vec.proj(('f', k)), outs[k], g)
            mm.store(vec.proj(('f', 'len')), newlen, g)
            return UNIT
        R('__vec_compact', vec_compact)
    # ------------------------------------------------------------------ scenario program generation
    def build(s):
        """generate MIR text for the scenario and create the threads"""
        sc = s.scen; m = s.m
        T = []
        nq = sc.get('queues', 1)
        # init thread
        L = ['fn scen::init() -> () {', '    bb0: {', '        _1 = desync_scheduler::Scheduler::new() -> [return: bb1, unwind continue];', '    }',
             '    bb1: {', '        _2 = std::sync::Arc::<desync_scheduler::Scheduler>::new(move _1) -> [return: bb2, unwind continue];', '    }',
             '    bb2: {', '        _3 = __set_global(const 0_usize, move _2) -> [return: bb3, unwind continue];', '    }']
        b = 3
        for q in range(nq):
            L += ['    bb%d: {' % b, '        _%d = desync_scheduler::queue() -> [return: bb%d, unwind continue];' % (10 + q, b + 1), '    }',
                  '    bb%d: {' % (b + 1), '        _4 = __set_global(const %d_usize, move _%d) -> [return: bb%d, unwind continue];' % (1 + q, 10 + q, b + 2), '    }']
            b += 2
        L += ['    bb%d: {' % b, '        return;', '    }', '}', '']
        T.append('\n'.join(L))
        opid = 0
        s.thread_specs = []
        for ti, th in enumerate(sc['threads']):
            name = th['name']
            blocks = []     # list of (stmts, term)
            def emit(stmts, term): blocks.append((stmts, term))
            loc = [20]
            def fresh():
                loc[0] += 1; return loc[0]
            if th.get('final'):
                emit([], '_%d = __await_callers() -> [return: bb%d, unwind continue]' % (fresh(), len(blocks) + 1))
            for oi, op in enumerate(th['ops']):
                kind = op[0]
                if kind in ('sync', 'desync', 'try_sync'):
                    q = op[1]; body = op[2] if len(op) > 2 else {}
                    s.ops[opid] = dict(thread=name, tid=None, obj=q, kind=kind, idx=oi, opid=opid, tindex=ti, probe=bool(body.get('probe')), gated=any(isinstance(x, tuple) and x[0] == 'gate' for x in body.get('acts', [])))
                    cl = 'scen:%s:%d' % (name, oi)
                    c = fresh(); r = fresh(); x = fresh(); y = fresh()
                    tok = 40 + opid
                    T.append(s.job_closure(name, oi, cl, q, opid, body, returns=(kind != 'desync'), tok=tok))
                    emit(['_%d = {closure@%s} { }' % (c, cl)],
                         '_%d = __op_inv(const %d_usize) -> [return: bb%d, unwind continue]' % (y, opid, len(blocks) + 1))
                    fnname = {'sync': 'desync_scheduler::sync::<u32, {closure@%s}>' % cl, 'desync': 'desync_scheduler::desync::<{closure@%s}>' % cl,
                              'try_sync': 'desync_scheduler::try_sync::<u32, {closure@%s}>' % cl}[kind]
                    emit([], '_%d = %s(copy _%d, move _%d) -> [return: bb%d, unwind continue]' % (r, fnname, 1 + q, c, len(blocks) + 1))
                    emit([], '_%d = __op_done(const %d_usize, move _%d) -> [return: bb%d, unwind continue]' % (x, opid, r, len(blocks) + 1))
                    s.ops[opid]['tok'] = tok
                    opid += 1
                elif kind == 'open_gate':
                    emit([], '_%d = __gate_open(const %d_usize) -> [return: bb%d, unwind continue]' % (fresh(), op[1], len(blocks) + 1))
                else: raise EncodeError('scenario op ' + kind)
            emit([], 'return')
            L = ['fn scen::thread_%s(%s) -> () {' % (name, ', '.join('_%d: &Arc<JobQueue>' % (1 + q) for q in range(nq)))]
            for i, (stmts, term) in enumerate(blocks):
                L.append('    bb%d: {' % i)
                for st in stmts: L.append('        %s;' % st)
                L.append('        %s;' % term); L.append('    }')
            L += ['}', '']
            T.append('\n'.join(L))
            s.thread_specs.append((name, 'scen::thread_%s' % name, th))
        # pool thread main: runs the closure given to Builder::spawn
        T.append('''fn scen::pool_main(_1: F) -> () {
    bb0: {
        _2 = ();
        _0 = <F as FnOnce<()>>::call_once(move _1, move _2) -> [return: bb1, unwind continue];
    }
    bb1: {
        return;
    }
}
''')
        text = '\n'.join(T)
        s.scen_text = text
        fns = mp.parse(text, origin='scenario')
        for name, l in fns.items():
            for f in l:
                f.origin = 'scenario'; s.prog.add_fn(f)
        # threads
        init = m.add_thread('init', s.prog.byname['scen::init'], [])
        init.role = 'init'
        m.nthreads_max = 1 + len(s.thread_specs) + sc.get('pool_slots', sc.get('pool_max', 0))
        # run init to completion (single-threaded, concrete)
        m.now = 0
        for k in range(50):
            if not init.live(): break
            m.step(init, TRUE)
        if init.finished is not TRUE: raise EncodeError('scenario init did not finish concretely: %r' % (list(init.states),))
        m.trace_sites = []
        qargs = [Ref.to(s.globals[1 + q]) for q in range(nq)]
        for name, fname, spec in s.thread_specs:
            t = m.add_thread(name, s.prog.byname[fname], qargs)
            t.role = 'caller'; t.final = bool(spec.get('final'))
        for i in range(sc.get('pool_slots', sc.get('pool_max', 0))):
            t = m.add_thread('P%d' % i, s.prog.byname['scen::pool_main'], [None], started=FALSE)
            t.role = 'pool'; t.is_pool = True; t.pool_index = i
        for op in s.ops.values():
            op['tid'] = [t.tid for t in m.threads if t.name == op['thread']][0]
    def job_closure(s, tname, oi, cl, obj, opid, body, returns, tok):
        acts = body.get('acts', ['enter', 'yield', 'exit'])
        L = ['fn scen::thread_%s::{closure#%d}(_1: {closure@%s}) -> %s {' % (tname, oi, cl, 'u32' if returns else '()')]
        b = 0
        for a in acts:
            if a == 'enter': call = '__enter(const %d_usize, const %d_usize)' % (obj, opid)
            elif a == 'exit': call = '__exit(const %d_usize, const %d_usize)' % (obj, opid)
            elif a == 'yield': call = '__yield()'
            elif a[0] == 'gate': call = '__gate_wait(const %d_usize)' % a[1]
            else: raise EncodeError('job act %r' % (a,))
            L += ['    bb%d: {' % b, '        _%d = %s -> [return: bb%d, unwind continue];' % (5 + b, call, b + 1), '    }']
            b += 1
        L += ['    bb%d: {' % b] + (['        _0 = const %d_u32;' % tok] if returns else []) + ['        return;', '    }', '}', '']
        return '\n'.join(L)
    # ------------------------------------------------------------------ driving
    def run(s, R, B, order=None, verbose=False, fixed=None):
        m = s.m
        ths = [t for t in m.threads if t.role != 'init' and not t.final]
        finals = [t for t in m.threads if t.final]
        if order is not None: ths = [ths[i] for i in order]
        s.actvars = []; s.side = []
        K = 1
        t0 = time.time()
        for r in range(R):
            for th in ths:
                prev = TRUE
                for j in range(B):
                    if not th.live(): break
                    a = ActVar('a_%d_%d_%d' % (r, th.tid, j), (r, th.tid), j)
                    if j > 0 and fixed is None:
                        s.side.append(Implies(a, lasta))
                        if m.pruner is not None: m.pruner.add(Implies(a, lasta))
                    lasta = a
                    if fixed is not None: a = BoolC(bool(fixed.get('a_%d_%d_%d' % (r, th.tid, j), False)))
                    act = And(prev, a)
                    m.now = K
                    took = m.step(th, act, slot=(r, th.tid), stepno=j)
                    s.actvars.append((r, th.tid, j, a, K, took))
                    K += 1
                    prev = act
                    if took is FALSE: break
                if verbose:
                    print('  slot r=%d %-4s positions=%d nodes=%d t=%.1fs' % (r, th.name, len(th.states), nodes(), time.time() - t0))
        # final phase: probe threads run alone (they wait for every caller to have returned), no budget variables
        for th in finals:
            for j in range(3 * B):
                if not th.live(): break
                m.now = K
                b0 = m.stats['blocks']; tt = time.time()
                took = m.step(th, TRUE, slot=(R, th.tid), stepno=j)
                if verbose: print('     final step %d: states=%d blocks=%d %.1fs nodes=%d' % (j, len(th.states), m.stats['blocks'] - b0, time.time() - tt, nodes()))
                K += 1
                if took is FALSE: break
            if verbose: print('  final %-4s positions=%d nodes=%d t=%.1fs' % (th.name, len(th.states), nodes(), time.time() - t0))
        s.K = K
        if K >= (1 << W) - 1: raise EncodeError('time stamps overflow W=%d' % W)
        s.final_predicates()
    def final_predicates(s):
        m = s.m
        s.fin = {}; s.blocked = {}; s.runnable = {}; s.idle = {}
        for th in m.threads:
            if th.role == 'init': continue
            run = FALSE; blk = FALSE; idle = FALSE
            for poskey, st in th.states.items():
                G = st.g
                if poskey[2] == 'E' or G is FALSE: continue
                cp, b, ph = poskey
                if ph == 'S':
                    run = Or(run, G); continue
                nat, t = m.site_native(cp, b)
                m.cur = th; m.st = st
                args = [m.operand(st, a) for a in t[3]]
                en = nat.enabled(m, th, args, ph, G)
                run = Or(run, And(G, en)); blk = Or(blk, And(G, Not(en)))
                if nat.name.endswith('Receiver::recv') and th.role == 'pool': idle = Or(idle, And(G, Not(en)))
            dead = th.dead
            s.fin[th.tid] = th.finished; s.runnable[th.tid] = run; s.blocked[th.tid] = Or(blk, dead); s.idle[th.tid] = idle
        callers = [t for t in m.threads if t.role in ('caller', 'waker')]
        pools = [t for t in m.threads if t.role == 'pool']
        norun = And(*[Not(s.runnable[t.tid]) for t in callers + pools])
        allfin = And(*[s.fin[t.tid] for t in callers])
        s.deadlock = And(norun, Not(allfin))
        s.norun = norun
        s.quiescent = And(allfin, *[Or(Not(t.started), s.idle[t.tid], s.fin[t.tid]) for t in pools])
        s.anypanic = Or(*[g for _, _, g in m.panics]) if m.panics else FALSE
