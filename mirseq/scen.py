# Scenario layer: generates the harness side of a scenario as MIR text (thread bodies, job closures,
# user futures), installs the ghost/oracle natives, and drives the bounded round-robin sequentialisation.
import re, time, itertools
from .expr import *
from .values import *
from . import mirparse as mp
from .engine import Machine, Program, Native, FnNative, Dispatch, EncodeError, END, PANIC, State
from .natives import Natives, Some, NoneV, Ok, Err, Ready, Pending, payload, OPT, RES, POLL
from .prelude import prelude_text, PRELUDE_TRAIT, FUTURES_TEXT

NONE_T = BV((1 << W) - 1)       # "has not happened" time stamp

def load_program(mirtext, srcdir, cap):
    fns = mp.parse(mirtext)
    enums = mp.load_enums(srcdir)
    impls = mp.impl_self_types(fns, srcdir)
    prog = Program(fns, enums, impls)
    # one-line scalar constants of the crate (`const NAME: usize = const 5_usize;`)
    prog.named_consts = {m_.group(1): m_.group(2) for m_ in re.finditer(r'^const (\w+): \w+ = const ([\w\-]+);$', mirtext, re.M)}
    pre = mp.parse(prelude_text(cap) + FUTURES_TEXT, origin='prelude')
    for name, l in pre.items():
        for f in l:
            f.origin = 'prelude'; prog.add_fn(f)
    for k, n in PRELUDE_TRAIT.items(): prog.traitm[k] = prog.byname[n]
    prog.traitm[('Future', 'OneReceiver', 'poll')] = prog.byname['prelude::oneshot_recv_poll']
    return prog

class World(object):
    """one scenario instance: program + machine + ghost state"""
    def __init__(s, prog, scen, cap=3):
        s.prog = prog; s.scen = scen
        s.nat = Natives(prog)
        s.nat.install_futures()
        s.m = Machine(prog, s.nat, cap)
        s.m.world = s
        s.m.census_spawn = s.census_spawn; s.m.census_join = s.census_join
        s.m.unwind_mode = bool(scen.get('unwind'))
        s.m.on_thread_exit = s.on_thread_exit
        s.ghost = {}
        s.ops = {}          # opid -> dict(thread, obj, kind, idx)
        s.globals = {}
        s.gates = {}
        s.flag_opens = {}
        s.rewake_gates = set(op[1] for th_ in scen['threads'] for op in th_['ops'] if op[0] == 'rewake')
        s.live_pool = ZERO      # census of spawned-and-not-joined pool threads
        s.install_natives()
        # ghost: the step at which reschedule_queue was last entered for each job queue (keyed by the queue's Arc allocation)
        s.resched_at = {}
        def on_resched(th, st, f, args, g):
            if len(args) < 2: return
            q = s.m.load(args[1], g) if isinstance(args[1], Ref) else args[1]
            if not isinstance(q, St) or not isinstance(q.f.get('p'), Ref): return
            for x, c, p_ in q.f['p'].tg:
                s.resched_at[c.id] = Ite(And(g, x), BV(s.m.now), s.resched_at.get(c.id, ZERO))
        s.m.enter_hooks = [('::reschedule_queue', on_resched)]
    # ------------------------------------------------------------------ ghost helpers
    def g(s, name, default=None):
        v = s.ghost.get(name)
        return v if v is not None else default
    def gset(s, name, val, guard, default):
        old = s.ghost.get(name, default)
        s.ghost[name] = Ite(guard, val, old)
    def census_spawn(s, t, g):
        s.live_pool = Ite(g, Add(s.live_pool, ONE), s.live_pool)
        mx = s.current_max()
        s.m.violate('pool-exceeds-max', And(g, Ugt(s.live_pool, mx)))
        s.gset('spawned', TRUE, g, FALSE)
    def census_join(s, h, g):
        s.live_pool = Ite(g, Sub(s.live_pool, ONE), s.live_pool)
    def on_thread_exit(s, th, g): pass
    def current_max(s):
        sch = s.globals.get('scheduler')
        if sch is None: return BV(s.scen.get('pool_max', 0))
        # Scheduler { core: Arc<SchedulerCore{ schedule, threads, max_threads: Mutex<usize> }> }
        m = s.m
        core = m.load(Ref.to(sch), TRUE)
        try:
            inner = m.load(core.f['p'].proj(('f', 'data')), TRUE)       # Scheduler
            sc = m.load(inner.f[0].f['p'].proj(('f', 'data')), TRUE)    # SchedulerCore
            return sc.f[2].f['data']
        except Exception:
            return BV(s.scen.get('pool_max', 0))
    # ------------------------------------------------------------------ natives of the harness
    def install_natives(s):
        R = s.nat.reg; m = s.m
        def set_global(mm, th, a, g):
            k = a[0].val
            c = mm.alloc(None, ('global', k), 'global%d' % k)
            mm.store(Ref.to(c), a[1], g)
            s.globals[k] = c
            if k == 0: s.globals['scheduler'] = c
            return UNIT
        R('__set_global', set_global)
        def scheduler(mm, th, a, g):
            c = s.globals['scheduler']
            arc = mm.load(Ref.to(c), g)
            return arc.f['p'].proj(('f', 'data'))
        R('desync_scheduler::scheduler', scheduler)
        s.nat.regt('Deref', 'deref', 'REFERENCE_CHUTE', lambda mm, th, a, g: Ref.to(s.globals[50]))
        R('initial_max_threads', lambda mm, th, a, g: BV(s.scen.get('pool_max', 0)))
        def op_inv(mm, th, a, g):
            s.gset('inv%d' % a[0].val, BV(mm.now), g, NONE_T); return UNIT
        R('__op_inv', op_inv)
        def op_done(mm, th, a, g):
            op = a[0].val
            s.gset('ret%d' % op, BV(mm.now), g, NONE_T)
            s.ghost['res%d' % op] = merge(g, a[1], s.ghost.get('res%d' % op))
            return UNIT
        R('__op_done', op_done)
        def enter(mm, th, a, g):
            obj = a[0].val; op = a[1].val
            occ = s.ghost.get('occ%d' % obj, ZERO)
            mm.violate('overlap:obj%d:op%d' % (obj, op), And(g, Ugt(occ, ZERO)))
            s.ghost['occ%d' % obj] = Ite(And(g, Ult(occ, BV(3))), Add(occ, ONE), occ)
            n = s.ghost.get('nrun%d' % op, ZERO)
            mm.violate('ran-twice:op%d' % op, And(g, Ugt(n, ZERO)))
            s.ghost['nrun%d' % op] = Ite(And(g, Ult(n, BV(3))), Add(n, ONE), n)
            s.gset('start%d' % op, BV(mm.now), g, NONE_T)
            s.gset('runner%d' % op, BV(th.tid), g, NONE_T)
            return UNIT
        R('__enter', enter)
        def exit_(mm, th, a, g):
            obj = a[0].val; op = a[1].val
            occ = s.ghost.get('occ%d' % obj, ZERO)
            s.ghost['occ%d' % obj] = Ite(And(g, Ugt(occ, ZERO)), Sub(occ, ONE), occ)
            s.gset('end%d' % op, BV(mm.now), g, NONE_T)
            return UNIT
        R('__exit', exit_)
        R('__yield', lambda mm, th, a, g: UNIT, visible=True)
        R('__panic', lambda mm, th, a, g: PANIC)
        def gate_en(mm, th, a, ph, g): return s.ghost.get('gate%d' % a[0].val, FALSE)
        R('__gate_wait', lambda mm, th, a, g: UNIT, visible=True, enabled=gate_en)
        def await_all_en(mm, th, a, ph, g):
            out = TRUE
            after = getattr(th, 'after', None)
            for t in mm.threads:
                if after is not None:
                    if t.name in after: out = And(out, Or(t.finished, t.dead))
                elif t.role == 'caller' and t is not th and not t.final: out = And(out, Or(t.finished, t.dead))
            return out
        R('__await_callers', lambda mm, th, a, g: UNIT, visible=True, enabled=await_all_en)
        # ---- futures side of the harness
        def op_ret(mm, th, a, g):
            s.gset('ret%d' % a[0].val, BV(mm.now), g, NONE_T); return UNIT
        R('__op_ret', op_ret)
        def gate_open2(mm, th, a, g):
            k = a[0].val
            s.gset('gate%d' % k, TRUE, g, FALSE)
            s.gset('gateopen_at%d' % k, BV(mm.now), g, NONE_T)
            wk = s.ghost.get('gatewaker%d' % k)
            if wk is None: return NoneV()
            if isinstance(wk, En): s.gset('gatewoke%d' % k, TRUE, And(g, Eq(wk.disc, ONE)), FALSE)
            s.ghost['gatewaker%d' % k] = merge(g, NoneV(), wk)
            return wk
        R('__gate_open', gate_open2, visible=True)
        def gate_rewake(mm, th, a, g):
            k = a[0].val
            wk = s.ghost.get('gatekept%d' % k)
            if wk is None: return NoneV()
            s.ghost['gatekept%d' % k] = merge(g, NoneV(), wk)
            return wk
        R('__gate_rewake', gate_rewake, visible=True)
        def gate_poll(mm, th, a, g):
            pin = a[0]; r = pin.f[0] if isinstance(pin, St) and pin.ty == 'Pin' else pin
            fut = mm.load(r, g)
            if not isinstance(fut, St) or 'gate' not in fut.f.keys() and 0 not in fut.f: return POISON
            f = fut.f
            gate = f[0]; op = f[1]; obj = f[2]; tok = f[3]
            objk = obj.val
            gcs = cases(gate); ocs = cases(op)
            if gcs is None or ocs is None or objk is None: raise EncodeError('gate future with a non-constant gate/op')
            opened = FALSE
            for gk, gc in gcs:
                opened = Or(opened, And(gc, TRUE if gk in (99, 96) else s.ghost.get('gate%d' % gk, FALSE)))
            fin = And(g, opened)
            # completing: leave the object
            occ = s.ghost.get('occ%d' % objk, ZERO)
            s.ghost['occ%d' % objk] = Ite(And(fin, Ugt(occ, ZERO)), Sub(occ, ONE), occ)
            for opk, oc in ocs: s.gset('end%d' % opk, BV(mm.now), And(fin, oc), NONE_T)
            mm.store(r.proj(('f', 4)), TRUE, fin)
            if 5 in f and isinstance(f[5], Ref): touch(mm, th, [f[5], BV(ocs[0][0])], g)
            pend = And(g, Not(opened))
            if pend is not FALSE:
                cx = mm.load(a[1], g)
                wk = mm.load(cx.f['w'], g) if isinstance(cx, St) else None
                for gk, gc in gcs:
                    pk_ = And(pend, gc)
                    if pk_ is FALSE or gk in (99, 96): continue
                    if isinstance(wk, St):
                        wkc = s.nat.table['__waker_clone'].apply(mm, th, [cx.f['w']], pk_)
                        old = s.ghost.get('gatewaker%d' % gk, NoneV())
                        s.ghost['gatewaker%d' % gk] = merge(pk_, Some(wkc), old)
                        if gk in s.rewake_gates:
                            # the event source keeps a second clone of the last waker it was given: a late / duplicate wake-up
                            # (scenario op `rewake`) fires it after the operation it belonged to may long have finished (stale waker)
                            wkc2 = s.nat.table['__waker_clone'].apply(mm, th, [cx.f['w']], pk_)
                            s.ghost['gatekept%d' % gk] = merge(pk_, Some(wkc2), s.ghost.get('gatekept%d' % gk, NoneV()))
                for opk, oc in ocs: s.gset('polled_pending%d' % opk, TRUE, And(pend, oc), FALSE)
            return En(POLL, Ite(opened, ZERO, ONE), {0: St(None, {0: tok})})
        R('__gate_poll', gate_poll, visible=True)
        def gate_mode(mm, th, a, g):
            pin = a[0]; r = pin.f[0] if isinstance(pin, St) and pin.ty == 'Pin' else pin
            fut = mm.load(r, g)
            if not isinstance(fut, St) or 0 not in fut.f or fut.f[0].op != 'c': return ZERO
            return BV({97: 1, 98: 2, 96: 3}.get(fut.f[0].val, 0))
        R('__gate_mode', gate_mode)
        def gate_yielded(mm, th, a, g):
            pin = a[0]; r = pin.f[0] if isinstance(pin, St) and pin.ty == 'Pin' else pin
            fut = mm.load(r, g)
            return s.ghost.get('yielded%d' % fut.f[1].val, FALSE)
        R('__gate_yielded', gate_yielded)
        def gate_poll_yield(mm, th, a, g):
            pin = a[0]; r = pin.f[0] if isinstance(pin, St) and pin.ty == 'Pin' else pin
            fut = mm.load(r, g); opk = fut.f[1].val
            s.gset('yielded%d' % opk, TRUE, g, FALSE)
            s.gset('polled_pending%d' % opk, TRUE, g, FALSE)
            return En(POLL, ONE, {})
        R('__gate_poll_yield', gate_poll_yield, visible=True)
        def gatefut_drop(mm, th, a, g):
            fut = mm.load(a[0], g)
            if not isinstance(fut, St): return UNIT
            f = fut.f; done = f[4]; objk = f[2].val
            ocs = cases(f[1])
            if ocs is None or objk is None: raise EncodeError('gate future with a non-constant op')
            canc = And(g, Not(done))
            occ = s.ghost.get('occ%d' % objk, ZERO)
            s.ghost['occ%d' % objk] = Ite(And(canc, Ugt(occ, ZERO)), Sub(occ, ONE), occ)
            for opk, oc in ocs:
                s.gset('cancelled%d' % opk, TRUE, And(canc, oc), FALSE)
                s.gset('end%d' % opk, BV(mm.now), And(canc, oc), NONE_T)
            return UNIT
        # visible: destroying an operation's future is the moment the operation leaves the object; a library that released the queue
        # just before (in the same thread) must be observable in between
        R('__gatefut_drop', gatefut_drop, visible=True)
        R('__waker_clone', lambda mm, th, a, g: s.nat.trait[('Clone', 'clone', 'Waker')].apply(mm, th, a, g))
        def task_waker(mm, th, a, g):
            from .natives import TASK_VT_BASE
            return St('Waker', {'vt': BV(TASK_VT_BASE + a[0].val), 'data': Ref([])})
        R('__task_waker', task_waker)
        def task_wake(mm, th, a, g):
            s.gset('woken%d' % a[0].val, TRUE, g, FALSE); return UNIT
        R('__task_wake', task_wake, visible=True)
        def task_wait_en(mm, th, a, ph, g): return s.ghost.get('woken%d' % a[0].val, FALSE)
        def task_wait(mm, th, a, g):
            s.gset('woken%d' % a[0].val, FALSE, g, FALSE); return UNIT
        R('__task_wait', task_wait, visible=True, enabled=task_wait_en)
        def fut_done(mm, th, a, g):
            op = a[0].val
            s.gset('fret%d' % op, BV(mm.now), g, NONE_T)
            s.ghost['fres%d' % op] = merge(g, payload(a[1], 0), s.ghost.get('fres%d' % op))
            n = s.ghost.get('nready%d' % op, ZERO); s.ghost['nready%d' % op] = Ite(And(g, Ult(n, BV(3))), Add(n, ONE), n)
            return UNIT
        R('__fut_done', fut_done)
        def fut_done_res(mm, th, a, g):
            op = a[0].val
            s.gset('fret%d' % op, BV(mm.now), g, NONE_T)
            s.ghost['fres%d' % op] = merge(g, a[1], s.ghost.get('fres%d' % op))
            return UNIT
        R('__fut_done_res', fut_done_res)
        def fut_polled(mm, th, a, g):
            op = a[0].val; pr = a[1]
            if isinstance(pr, En):
                rdy = And(g, Eq(pr.disc, ZERO))
                s.gset('fret%d' % op, BV(mm.now), rdy, NONE_T)
                s.ghost['fres%d' % op] = merge(rdy, payload(pr, 0), s.ghost.get('fres%d' % op))
                n = s.ghost.get('nready%d' % op, ZERO); s.ghost['nready%d' % op] = Ite(And(rdy, Ult(n, BV(3))), Add(n, ONE), n)
            return UNIT
        R('__fut_polled', fut_polled)
        R('__fut_dropped', lambda mm, th, a, g: (s.gset('fdropped%d' % a[0].val, BV(mm.now), g, NONE_T), UNIT)[1])
        R('__resumed', lambda mm, th, a, g: (s.gset('resumed%d' % a[0].val, BV(mm.now), g, NONE_T), UNIT)[1])
        def touch(mm, th, a, g):
            ref = a[0]; op = a[1].val
            if not isinstance(ref, Ref): return UNIT
            for x, c, p in ref.tg:
                fr = mm.freed.get(c.id) if not hasattr(c, 'tid') else None
                if fr is not None: mm.violate('use-after-free:value:op%d' % op, And(g, x, fr))
            v = mm.load(ref, g)
            if isinstance(v, St) and isinstance(v.f.get(0), E):
                mm.violate('use-after-drop:value:op%d' % op, And(g, Not(v.f[0])))
            return UNIT
        R('__touch', touch)
        def stream_poll(mm, th, a, g):
            pin = a[0]; r = pin.f[0] if isinstance(pin, St) and pin.ty == 'Pin' else pin
            stv = mm.load(r, g)
            if not isinstance(stv, St) or 3 not in stv.f: return POISON
            f = stv.f; n = f[0].val; ends = f[1]; idx = f[2]; pid = f[3].val
            pp = s.pipes[pid]
            s.gset('stream_polled%d' % pid, TRUE, g, FALSE)
            # item k is available when the index is k and gate k is open
            avail = FALSE; val = ZERO; pend_any = FALSE
            cx = mm.load(a[1], g)
            for k in range(n):
                gk = pp['gates'][k]
                opened = TRUE if gk == 99 else s.ghost.get('gate%d' % gk, FALSE)
                here = And(g, Eq(idx, BV(k)))
                take = And(here, opened)
                avail = Or(avail, take); val = Ite(take, BV(k), val)
                pend = And(here, Not(opened))
                if pend is not FALSE and gk != 99:
                    if isinstance(cx, St):
                        wk = s.nat.table['__waker_clone'].apply(mm, th, [cx.f['w']], pend)
                        old = s.ghost.get('gatewaker%d' % gk, NoneV())
                        s.ghost['gatewaker%d' % gk] = merge(pend, Some(wk), old)
                    pend_any = Or(pend_any, pend)
            atend = And(g, Eq(idx, BV(n)))
            done = And(atend, ends) if isinstance(ends, E) else FALSE
            mm.store(r.proj(('f', 2)), Ite(avail, Add(idx, ONE), idx), g)
            s.gset('stream_ended%d' % pid, TRUE, done, FALSE)
            # Poll<Option<usize>>: Ready(Some(k)) | Ready(None) | Pending
            ready = Or(avail, done)
            inner = En(OPT, Ite(avail, ONE, ZERO), {1: St(None, {0: val})})
            return En(POLL, Ite(ready, ZERO, ONE), {0: St(None, {0: inner})})
        R('__stream_poll', stream_poll, visible=True)
        def dropflag(mm, th, a, g):
            v = mm.load(a[0], g)
            if not isinstance(v, St): return UNIT
            k = v.f[0].val
            nd = s.ghost.get('flagdrop%d' % k, ZERO)
            mm.violate('dropped-twice:flag%d' % k, And(g, Ugt(nd, ZERO)))
            s.ghost['flagdrop%d' % k] = Ite(And(g, Ult(nd, BV(3))), Add(nd, ONE), nd)
            s.gset('flagdrop_at%d' % k, BV(mm.now), g, NONE_T)
            return UNIT
        R('__dropflag', dropflag)
        def dropflag_wake(mm, th, a, g):
            # a closure that owns the sending half of a channel feeding another pipe: dropping it is a stream event there (the gate opens and
            # the waker registered with it is woken, from inside whatever thread runs the drop).  Not a scheduling point of its own.
            v = mm.load(a[0], g)
            if not isinstance(v, St): return NoneV()
            k = v.f[0].val
            gk = s.flag_opens.get(k)
            if gk is None: return NoneV()
            return gate_open2(mm, th, [BV(gk)], g)
        R('__dropflag_wake', dropflag_wake)
        def s_done(mm, th, a, g):
            op = a[0].val; pr = a[1]
            s.gset('ret%d' % op, BV(mm.now), g, NONE_T)
            inner = payload(pr, 0) if isinstance(pr, En) else None
            if isinstance(inner, En):
                s.gset('sgot%d' % op, Ite(Eq(inner.disc, ONE), ONE, ZERO), g, NONE_T)
                v = payload(inner, 1)
                if isinstance(v, E): s.gset('sval%d' % op, v, And(g, Eq(inner.disc, ONE)), NONE_T)
            else: mm.oblige('junk', 's_next result shape', g)
            return UNIT
        R('__s_done', s_done)
        R('__s_dropped', lambda mm, th, a, g: (s.gset('sdropped%d' % a[0].val, BV(mm.now), g, NONE_T), UNIT)[1])
        R('__pipe_started', lambda mm, th, a, g: (s.gset('pipe_started%d' % a[0].val, BV(mm.now), g, NONE_T), UNIT)[1])
        def canary_drop(mm, th, a, g):
            v = mm.load(a[0], g)
            if not isinstance(v, St): return UNIT
            cid = v.f[1].val if isinstance(v.f.get(1), E) and v.f[1].op == 'c' else 0
            n = s.ghost.get('ndrop%d' % cid, ZERO)
            mm.violate('value-dropped-twice:canary%d' % cid, And(g, Ugt(n, ZERO)))
            s.ghost['ndrop%d' % cid] = Ite(And(g, Ult(n, BV(3))), Add(n, ONE), n)
            s.gset('freed_at%d' % cid, BV(mm.now), g, NONE_T)
            mm.store(a[0].proj(('f', 0)), FALSE, g)
            return UNIT
        R('__canary_drop', canary_drop)
        def despawned(mm, th, a, g):
            # despawn_threads_if_overloaded returned: the scheduler must not own more live pool threads than its (current) maximum
            mm.violate('pool-exceeds-max-after-despawn', And(g, Ugt(s.live_pool, s.current_max())))
            s.gset('despawned', TRUE, g, FALSE)
            return UNIT
        R('__despawned', despawned)
        R('__drop_begin', lambda mm, th, a, g: (s.gset('dropbegin%d' % a[0].val, BV(mm.now), g, NONE_T), UNIT)[1])
        R('__drop_end', lambda mm, th, a, g: (s.gset('dropend%d' % a[0].val, BV(mm.now), g, NONE_T), UNIT)[1])
        def give(mm, th, a, g):
            k = a[0].val
            s.ghost['slotval%d' % k] = merge(g, a[1], s.ghost.get('slotval%d' % k))
            s.gset('slotfull%d' % k, TRUE, g, FALSE); return UNIT
        R('__give', give, visible=True)
        def take_en(mm, th, a, ph, g): return s.ghost.get('slotfull%d' % a[0].val, FALSE)
        def take_(mm, th, a, g):
            k = a[0].val
            s.gset('slotfull%d' % k, FALSE, g, FALSE)
            return s.ghost.get('slotval%d' % k)
        R('__take', take_, visible=True, enabled=take_en)
        def vec_elem_ref(mm, th, a, g): return a[0].proj(('f', a[1].val))
        R('__vec_elem_ref', vec_elem_ref)
        def vec_compact(mm, th, a, g):
            vec = a[0]; keeps = a[1:]
            n = mm.load(vec.proj(('f', 'len')), g)
            elems = [mm.load(vec.proj(('f', k)), g) for k in range(mm.CAP)]
            # new index of element k = number of kept elements before it
            newlen = ZERO; outs = [None] * mm.CAP
            for k in range(mm.CAP):
                live = And(Ult(BV(k), n), keeps[k])
                for j in range(k + 1):
                    outs[j] = merge(And(live, Eq(newlen, BV(j))), elems[k], outs[j])
                newlen = Ite(live, Add(newlen, ONE), newlen)
            for k in range(mm.CAP):
                if outs[k] is not None: mm.store(vec.proj(('f', k)), outs[k], g)
            mm.store(vec.proj(('f', 'len')), newlen, g)
            return UNIT
        R('__vec_compact', vec_compact)
    # ------------------------------------------------------------------ scenario program generation
    def build(s):
        """generate MIR text for the scenario and create the threads"""
        sc = s.scen; m = s.m
        T = []
        nq = sc.get('queues', 1)
        # init thread
        L = ['fn scen::init() -> () {', '    bb0: {', '        _1 = desync_scheduler::Scheduler::new() -> [return: bb1, unwind continue];', '    }',
             '    bb1: {', '        _2 = std::sync::Arc::<desync_scheduler::Scheduler>::new(move _1) -> [return: bb2, unwind continue];', '    }',
             '    bb2: {', '        _3 = __set_global(const 0_usize, move _2) -> [return: bb3, unwind continue];', '    }']
        b = 3
        for q in range(nq):
            L += ['    bb%d: {' % b, '        _%d = desync_scheduler::queue() -> [return: bb%d, unwind continue];' % (10 + q, b + 1), '    }',
                  '    bb%d: {' % (b + 1), '        _4 = __set_global(const %d_usize, move _%d) -> [return: bb%d, unwind continue];' % (1 + q, 10 + q, b + 2), '    }']
            b += 2
        if any(op[0] in ('pipe_in', 'pipe') for th_ in sc['threads'] for op in th_['ops']):
            # pipe.rs' lazy_static REFERENCE_CHUTE: Desync<()>, created up front (lazy initialisation is not part of any property)
            L += ['    bb%d: {' % b, '        _5 = ();', '        _6 = desync::Desync::<()>::new(move _5) -> [return: bb%d, unwind continue];' % (b + 1), '    }',
                  '    bb%d: {' % (b + 1), '        _7 = __set_global(const 50_usize, move _6) -> [return: bb%d, unwind continue];' % (b + 2), '    }']
            b += 2
        L += ['    bb%d: {' % b, '        return;', '    }', '}', '']
        T.append('\n'.join(L))
        opid = 0; ntasks = [0]; ncanary = [0]; s.canaries = getattr(s, 'canaries', {})
        s.thread_specs = []; s.pipes = []
        for ti, th in enumerate(sc['threads']):
            name = th['name']
            blocks = []     # list of (stmts, term)
            def emit(stmts, term): blocks.append((stmts, term))
            loc = [20]; futvars = {}; resvars = {}; dvars = {}; arcvars = set(); psvars = {}
            def fresh():
                loc[0] += 1; return loc[0]
            if th.get('final') or th.get('after'):
                emit([], '_%d = __await_callers() -> [return: bb%d, unwind continue]' % (fresh(), len(blocks) + 1))
            for oi, op in enumerate(th['ops']):
                kind = op[0]
                if kind in ('sync', 'desync', 'try_sync'):
                    q = op[1]; body = op[2] if len(op) > 2 else {}
                    s.ops[opid] = dict(thread=name, tid=None, obj=q, kind=kind, idx=oi, opid=opid, tindex=ti, probe=bool(body.get('probe')), must_panic=bool(body.get('must_panic')), panics=('panic' in body.get('acts', []) or body.get('fut') in ('panic', 'wake_panic')), gated=any(isinstance(x, (list, tuple)) and x[0] == 'gate' for x in body.get('acts', [])))
                    cl = 'scen:%s:%d' % (name, oi)
                    c = fresh(); r = fresh(); x = fresh(); y = fresh()
                    outer = opid; tok = 40 + outer
                    s.ops[outer]['tok'] = tok
                    opid += 1
                    # operations scheduled from inside the job body: ('desync'|'sync', queue) acts get operations (and closures) of their own
                    nest = {}
                    for ai, a_ in enumerate(body.get('acts', [])):
                        if isinstance(a_, (list, tuple)) and a_[0] in ('desync', 'sync'):
                            s.ops[opid] = dict(thread=name, tid=None, obj=a_[1], kind=a_[0], idx=0, opid=opid, tindex=100 + opid, probe=False, must_panic=False, panics=False, gated=False, tok=40 + opid, nested_in=outer)
                            ncl = '%s:n%d' % (cl, ai)
                            T.append(s.job_closure('%s::nested%d_%d' % (name, oi, ai), 0, ncl, a_[1], opid, {}, returns=(a_[0] == 'sync'), tok=40 + opid))
                            nest[ai] = (opid, ncl)
                            opid += 1
                    T.append(s.job_closure(name, oi, cl, q, outer, body, returns=(kind != 'desync'), tok=tok, nest=nest, nq=nq))
                    caps = ', '.join('q%d: copy _%d' % (k_, 1 + k_) for k_ in range(nq)) if nest else ''
                    emit(['_%d = {closure@%s} { %s }' % (c, cl, caps)],
                         '_%d = __op_inv(const %d_usize) -> [return: bb%d, unwind continue]' % (y, outer, len(blocks) + 1))
                    fnname = {'sync': 'desync_scheduler::sync::<u32, {closure@%s}>' % cl, 'desync': 'desync_scheduler::desync::<{closure@%s}>' % cl,
                              'try_sync': 'desync_scheduler::try_sync::<u32, {closure@%s}>' % cl}[kind]
                    emit([], '_%d = %s(copy _%d, move _%d) -> [return: bb%d, unwind continue]' % (r, fnname, 1 + q, c, len(blocks) + 1))
                    emit([], '_%d = __op_done(const %d_usize, move _%d) -> [return: bb%d, unwind continue]' % (x, outer, r, len(blocks) + 1))
                elif kind in ('open_gate', 'rewake'):
                    # open the gate, then wake whatever waker the gated future registered (None if nobody waits yet)
                    w_ = fresh(); d_ = fresh(); k_ = fresh(); u_ = fresh()
                    n0 = len(blocks)
                    emit([], '_%d = %s(const %d_usize) -> [return: bb%d, unwind continue]' % (w_, '__gate_open' if kind == 'open_gate' else '__gate_rewake', op[1], n0 + 1))
                    emit(['_%d = discriminant(_%d)' % (d_, w_)], 'switchInt(move _%d) -> [0: bb%d, otherwise: bb%d]' % (d_, n0 + 3, n0 + 2))
                    emit(['_%d = move ((_%d as Some).0: Waker)' % (k_, w_)], '_%d = Waker::wake(move _%d) -> [return: bb%d, unwind continue]' % (u_, k_, n0 + 3))
                elif kind in ('future_desync', 'future_sync'):
                    q = op[1]; body = op[2] if len(op) > 2 else {}
                    fk = body.get('fut', 'ready')
                    s.ops[opid] = dict(thread=name, tid=None, obj=q, kind=kind, idx=oi, opid=opid, tindex=ti, probe=False, panics=fk in ('panic', 'wake_panic'),
                                       must_panic=bool(body.get('must_panic')), gated=isinstance(fk, (list, tuple)), var=body.get('as', 'f%d' % opid), tok=40 + opid)
                    cl = 'scen:%s:%d' % (name, oi)
                    T.append(s.future_closure(name, oi, cl, q, opid, fk, 40 + opid))
                    c = fresh(); y = fresh(); fv = fresh(); x = fresh()
                    futvars[s.ops[opid]['var']] = (fv, opid, kind)
                    emit(['_%d = {closure@%s} { }' % (c, cl)], '_%d = __op_inv(const %d_usize) -> [return: bb%d, unwind continue]' % (y, opid, len(blocks) + 1))
                    if kind == 'future_desync':
                        emit([], '_%d = desync_scheduler::future_desync::<{closure@%s}, GateFut>(copy _%d, move _%d) -> [return: bb%d, unwind continue]' % (fv, cl, 1 + q, c, len(blocks) + 1))
                    else:
                        emit([], '_%d = desync_scheduler::future_sync::<{closure@%s}, GateFut>(copy _%d, move _%d) -> [return: bb%d, unwind continue]' % (fv, cl, 1 + q, c, len(blocks) + 1))
                    emit([], '_%d = __op_ret(const %d_usize) -> [return: bb%d, unwind continue]' % (x, opid, len(blocks) + 1))
                    opid += 1
                elif kind == 'suspend':
                    q = op[1]; body = op[2] if len(op) > 2 else {}
                    s.ops[opid] = dict(thread=name, tid=None, obj=q, kind='suspend', idx=oi, opid=opid, tindex=ti, probe=False, gated=True, var=body.get('as', 'f%d' % opid), tok=0)
                    y = fresh(); fv = fresh(); x = fresh(); sr = fresh()
                    futvars[s.ops[opid]['var']] = (fv, opid, 'suspend')
                    emit([], '_%d = __op_inv(const %d_usize) -> [return: bb%d, unwind continue]' % (y, opid, len(blocks) + 1))
                    emit([], '_%d = desync_scheduler::scheduler::<\'_>() -> [return: bb%d, unwind continue]' % (sr, len(blocks) + 1))
                    emit([], '_%d = desync_scheduler::Scheduler::suspend(copy _%d, copy _%d) -> [return: bb%d, unwind continue]' % (fv, sr, 1 + q, len(blocks) + 1))
                    emit([], '_%d = __op_ret(const %d_usize) -> [return: bb%d, unwind continue]' % (x, opid, len(blocks) + 1))
                    opid += 1
                elif kind in ('block_on', 'poll'):
                    fv, fop, fkind = futvars[op[1]]
                    task = ntasks[0]; ntasks[0] += 1
                    wk = fresh(); cx = fresh(); rf = fresh(); pn = fresh(); pr = fresh(); d_ = fresh(); u_ = fresh(); wr = fresh()
                    n0 = len(blocks)
                    emit([], '_%d = __task_waker(const %d_usize) -> [return: bb%d, unwind continue]' % (wk, task, n0 + 1))
                    emit(['_%d = &_%d' % (wr, wk)], '_%d = Context::<\'_>::from_waker(copy _%d) -> [return: bb%d, unwind continue]' % (cx, wr, n0 + 2))
                    # poll loop head
                    emit(['_%d = &mut _%d' % (rf, fv)], '_%d = Pin::<&mut F>::new(copy _%d) -> [return: bb%d, unwind continue]' % (pn, rf, n0 + 3))
                    emit(['_%d = &mut _%d' % (u_, cx)], '_%d = <F as Future>::poll(move _%d, copy _%d) -> [return: bb%d, unwind continue]' % (pr, pn, u_, n0 + 4))
                    if kind == 'block_on':
                        emit(['_%d = discriminant(_%d)' % (d_, pr)], 'switchInt(move _%d) -> [0: bb%d, otherwise: bb%d]' % (d_, n0 + 6, n0 + 5))
                        emit([], '_%d = __task_wait(const %d_usize) -> [return: bb%d, unwind continue]' % (fresh(), task, n0 + 2))
                        emit([], '_%d = __fut_done(const %d_usize, move _%d) -> [return: bb%d, unwind continue]' % (fresh(), fop, pr, n0 + 7))
                        resvars[op[1]] = pr
                    else:
                        emit([], '_%d = __fut_polled(const %d_usize, move _%d) -> [return: bb%d, unwind continue]' % (fresh(), fop, pr, n0 + 5))
                elif kind in ('drop_fut', 'detach'):
                    fv, fop, fkind = futvars[op[1]]
                    emit([], '_%d = mem::drop::<F>(move _%d) -> [return: bb%d, unwind continue]' % (fresh(), fv, len(blocks) + 1))
                    emit([], '_%d = __fut_dropped(const %d_usize) -> [return: bb%d, unwind continue]' % (fresh(), fop, len(blocks) + 1))
                elif kind == 'sync_fut':
                    fv, fop, fkind = futvars[op[1]]
                    r = fresh()
                    emit([], '_%d = scheduler_future::SchedulerFuture::<u32>::sync(move _%d) -> [return: bb%d, unwind continue]' % (r, fv, len(blocks) + 1))
                    emit([], '_%d = __fut_done_res(const %d_usize, move _%d) -> [return: bb%d, unwind continue]' % (fresh(), fop, r, len(blocks) + 1))
                elif kind == 'resume':
                    # the future named op[1] resolved to Ok(QueueResumer): take it out of the poll result and resume / drop it
                    pr = resvars[op[1]]
                    a_ = fresh(); b_ = fresh()
                    # the resume instant is the moment the resumer is used (call invoked), not the return of resume()
                    emit(['_%d = move ((_%d as Ready).0: Result<QueueResumer, Canceled>)' % (a_, pr), '_%d = move ((_%d as Ok).0: QueueResumer)' % (b_, a_)],
                         '_%d = __resumed(const %d_usize) -> [return: bb%d, unwind continue]' % (fresh(), futvars[op[1]][1], len(blocks) + 1))
                    emit([], ('_%d = queue_resumer::QueueResumer::resume(move _%d) -> [return: bb%d, unwind continue]' if op[2] == 'resume' else '_%d = mem::drop::<QueueResumer>(move _%d) -> [return: bb%d, unwind continue]') % (fresh(), b_, len(blocks) + 1))
                elif kind == 'd_new':
                    dv = fresh(); cn = fresh()
                    dvars[op[1]] = dv
                    cid = ncanary[0]; ncanary[0] += 1
                    s.canaries[op[1]] = cid
                    emit(['_%d = Canary { alive: const true, id: const %d_usize }' % (cn, cid)],
                         '_%d = desync::Desync::<Canary>::new(move _%d) -> [return: bb%d, unwind continue]' % (dv, cn, len(blocks) + 1))
                elif kind in ('d_desync', 'd_sync', 'd_try_sync', 'd_future_desync'):
                    dv = dvars[op[1]]; body = op[2] if len(op) > 2 else {}
                    obj = 10 + s.canaries.get(op[1], 0)
                    base = kind[2:]
                    fk = body.get('fut', 'ready')
                    s.ops[opid] = dict(thread=name, tid=None, obj=obj, kind=base, idx=oi, opid=opid, tindex=ti, probe=False, gated=isinstance(fk, (list, tuple)) and base == 'future_desync',
                                       tok=40 + opid, var=body.get('as', 'f%d' % opid), wrapper=True)
                    cl = 'scen:%s:%d' % (name, oi)
                    c = fresh(); y = fresh(); r = fresh(); x = fresh(); dr = fresh()
                    if base == 'future_desync':
                        T.append(s.d_future_closure(name, oi, cl, obj, opid, fk, 40 + opid))
                    else:
                        T.append(s.d_job_closure(name, oi, cl, obj, opid, returns=(base != 'desync'), tok=40 + opid))
                    if op[1] in arcvars:
                        ar_ = fresh()
                        emit(['_%d = &_%d' % (ar_, dv)], '_%d = <Arc<Desync<Canary>> as Deref>::deref(copy _%d) -> [return: bb%d, unwind continue]' % (dr, ar_, len(blocks) + 1))
                        emit(['_%d = {closure@%s} { }' % (c, cl)], '_%d = __op_inv(const %d_usize) -> [return: bb%d, unwind continue]' % (y, opid, len(blocks) + 1))
                    else:
                        emit(['_%d = {closure@%s} { }' % (c, cl), '_%d = &_%d' % (dr, dv)], '_%d = __op_inv(const %d_usize) -> [return: bb%d, unwind continue]' % (y, opid, len(blocks) + 1))
                    meth = {'desync': 'desync', 'sync': 'sync', 'try_sync': 'try_sync', 'future_desync': 'future_desync'}[base]
                    emit([], '_%d = desync::Desync::<Canary>::%s::<{closure@%s}>(copy _%d, move _%d) -> [return: bb%d, unwind continue]' % (r, meth, cl, dr, c, len(blocks) + 1))
                    if base == 'future_desync':
                        futvars[s.ops[opid]['var']] = (r, opid, 'future_desync')
                        emit([], '_%d = __op_ret(const %d_usize) -> [return: bb%d, unwind continue]' % (x, opid, len(blocks) + 1))
                    else:
                        emit([], '_%d = __op_done(const %d_usize, move _%d) -> [return: bb%d, unwind continue]' % (x, opid, r, len(blocks) + 1))
                    opid += 1
                elif kind == 'p_new':
                    # Arc<Desync<Canary>>
                    dv = fresh(); cn = fresh(); av = fresh()
                    dvars[op[1]] = av; arcvars.add(op[1])
                    cid = ncanary[0]; ncanary[0] += 1
                    s.canaries[op[1]] = cid
                    emit(['_%d = Canary { alive: const true, id: const %d_usize }' % (cn, cid)],
                         '_%d = desync::Desync::<Canary>::new(move _%d) -> [return: bb%d, unwind continue]' % (dv, cn, len(blocks) + 1))
                    emit([], '_%d = Arc::<desync::Desync<Canary>>::new(move _%d) -> [return: bb%d, unwind continue]' % (av, dv, len(blocks) + 1))
                elif kind == 'p_drop':
                    av = dvars[op[1]]
                    emit([], '_%d = __drop_begin(const %d_usize) -> [return: bb%d, unwind continue]' % (fresh(), s.canaries[op[1]], len(blocks) + 1))
                    emit([], '_%d = mem::drop::<Arc<Desync<Canary>>>(move _%d) -> [return: bb%d, unwind continue]' % (fresh(), av, len(blocks) + 1))
                    emit([], '_%d = __drop_end(const %d_usize) -> [return: bb%d, unwind continue]' % (fresh(), s.canaries[op[1]], len(blocks) + 1))
                elif kind == 'pipe_in':
                    av = dvars[op[1]]; body = op[2] if len(op) > 2 else {}
                    obj = 10 + s.canaries[op[1]]
                    gates = list(body.get('gates', [99])); n = len(gates); ends = bool(body.get('ends', True))
                    pk = body.get('proc', 'ready')
                    base = opid
                    for k in range(n):
                        s.ops[opid] = dict(thread=name, tid=None, obj=obj, kind='pipe_item', idx=oi, opid=opid, tindex=ti, probe=False, gated=False, tok=40 + opid, item=k, gate=gates[k], pipe=base, wrapper=True)
                        opid += 1
                    pid = len(s.pipes); s.pipes.append(dict(base=base, n=n, gates=gates, ends=ends, obj=obj, thread=name, var=op[1]))
                    if body.get('drop_opens') is not None: s.flag_opens[2 * pid + 1] = body['drop_opens']
                    cl = 'scen:%s:%d' % (name, oi)
                    T.append(s.pipe_process_closure(name, oi, cl, obj, base, n, pk))
                    st_ = fresh(); f1 = fresh(); f2 = fresh(); c = fresh(); a2 = fresh(); ar = fresh(); r = fresh()
                    flds = ', '.join(['n: const %d_usize' % n, 'ends: const %s' % ('true' if ends else 'false'), 'idx: const 0_usize', 'pipe: const %d_usize' % pid, 'flag: move _%d' % f1] + ['g%d: const %d_usize' % (k, gates[k]) for k in range(n)])
                    emit(['_%d = DropFlag { id: const %d_usize }' % (f1, 2 * pid), '_%d = DropFlag { id: const %d_usize }' % (f2, 2 * pid + 1),
                          '_%d = GateStream { %s }' % (st_, flds), '_%d = {closure@%s} { flag: move _%d }' % (c, cl, f2), '_%d = &_%d' % (ar, av)],
                         '_%d = <Arc<Desync<Canary>> as Clone>::clone(copy _%d) -> [return: bb%d, unwind continue]' % (a2, ar, len(blocks) + 1))
                    emit([], '_%d = pipe::pipe_in::<Canary, GateStream, {closure@%s}>(move _%d, move _%d, move _%d) -> [return: bb%d, unwind continue]' % (r, cl, a2, st_, c, len(blocks) + 1))
                    emit([], '_%d = __pipe_started(const %d_usize) -> [return: bb%d, unwind continue]' % (fresh(), pid, len(blocks) + 1))
                elif kind == 'pipe':
                    av = dvars[op[1]]; body = op[2] if len(op) > 2 else {}
                    obj = 10 + s.canaries[op[1]]
                    gates = list(body.get('gates', [99])); n = len(gates); ends = bool(body.get('ends', True))
                    pk = body.get('proc', 'ready')
                    base = opid
                    for k in range(n):
                        s.ops[opid] = dict(thread=name, tid=None, obj=obj, kind='pipe_item', idx=oi, opid=opid, tindex=ti, probe=False, gated=False, tok=40 + opid, item=k, gate=gates[k], pipe=base, wrapper=True)
                        opid += 1
                    pid = len(s.pipes); s.pipes.append(dict(base=base, n=n, gates=gates, ends=ends, obj=obj, thread=name, var=op[1], out=body.get('as', 'ps'), consumer=[]))
                    cl = 'scen:%s:%d' % (name, oi)
                    T.append(s.pipe_process_closure(name, oi, cl, obj, base, n, pk))
                    st_ = fresh(); f1 = fresh(); f2 = fresh(); c = fresh(); a2 = fresh(); ar = fresh(); ps = fresh()
                    psvars[body.get('as', 'ps')] = (ps, pid)
                    flds = ', '.join(['n: const %d_usize' % n, 'ends: const %s' % ('true' if ends else 'false'), 'idx: const 0_usize', 'pipe: const %d_usize' % pid, 'flag: move _%d' % f1] + ['g%d: const %d_usize' % (k, gates[k]) for k in range(n)])
                    emit(['_%d = DropFlag { id: const %d_usize }' % (f1, 2 * pid), '_%d = DropFlag { id: const %d_usize }' % (f2, 2 * pid + 1),
                          '_%d = GateStream { %s }' % (st_, flds), '_%d = {closure@%s} { flag: move _%d }' % (c, cl, f2), '_%d = &_%d' % (ar, av)],
                         '_%d = <Arc<Desync<Canary>> as Clone>::clone(copy _%d) -> [return: bb%d, unwind continue]' % (a2, ar, len(blocks) + 1))
                    emit([], '_%d = pipe::pipe::<Canary, GateStream, u32, {closure@%s}>(move _%d, move _%d, move _%d) -> [return: bb%d, unwind continue]' % (ps, cl, a2, st_, c, len(blocks) + 1))
                    if body.get('depth'):
                        pr_ = fresh()
                        emit(['_%d = &mut _%d' % (pr_, ps)], '_%d = pipe::PipeStream::<u32>::set_backpressure_depth(copy _%d, const %d_usize) -> [return: bb%d, unwind continue]' % (fresh(), pr_, body['depth'], len(blocks) + 1))
                    emit([], '_%d = __pipe_started(const %d_usize) -> [return: bb%d, unwind continue]' % (fresh(), pid, len(blocks) + 1))
                elif kind == 's_next':
                    ps, pid = psvars[op[1]]
                    s.ops[opid] = dict(thread=name, tid=None, obj=s.pipes[pid]['obj'], kind='s_next', idx=oi, opid=opid, tindex=ti, probe=False, gated=False, tok=0, pipe=s.pipes[pid]['base'], seq=len(s.pipes[pid]['consumer']), wrapper=True)
                    s.pipes[pid]['consumer'].append(opid)
                    task = ntasks[0]; ntasks[0] += 1
                    wk = fresh(); cx = fresh(); rf = fresh(); pn = fresh(); pr = fresh(); d_ = fresh(); u_ = fresh(); wr = fresh()
                    n0 = len(blocks)
                    emit([], '_%d = __task_waker(const %d_usize) -> [return: bb%d, unwind continue]' % (wk, task, n0 + 1))
                    emit(['_%d = &_%d' % (wr, wk)], '_%d = Context::<\'_>::from_waker(copy _%d) -> [return: bb%d, unwind continue]' % (cx, wr, n0 + 2))
                    emit(['_%d = &mut _%d' % (rf, ps)], '_%d = Pin::<&mut PipeStream<u32>>::new(copy _%d) -> [return: bb%d, unwind continue]' % (pn, rf, n0 + 3))
                    emit(['_%d = &mut _%d' % (u_, cx)], '_%d = <PipeStream<u32> as Stream>::poll_next(move _%d, copy _%d) -> [return: bb%d, unwind continue]' % (pr, pn, u_, n0 + 4))
                    emit(['_%d = discriminant(_%d)' % (d_, pr)], 'switchInt(move _%d) -> [0: bb%d, otherwise: bb%d]' % (d_, n0 + 6, n0 + 5))
                    emit([], '_%d = __task_wait(const %d_usize) -> [return: bb%d, unwind continue]' % (fresh(), task, n0 + 2))
                    emit([], '_%d = __s_done(const %d_usize, move _%d) -> [return: bb%d, unwind continue]' % (fresh(), opid, pr, n0 + 7))
                    opid += 1
                elif kind == 's_drop':
                    ps, pid = psvars[op[1]]
                    emit([], '_%d = mem::drop::<PipeStream<u32>>(move _%d) -> [return: bb%d, unwind continue]' % (fresh(), ps, len(blocks) + 1))
                    emit([], '_%d = __s_dropped(const %d_usize) -> [return: bb%d, unwind continue]' % (fresh(), pid, len(blocks) + 1))
                elif kind == 'd_drop':
                    dv = dvars[op[1]]
                    emit([], '_%d = __drop_begin(const %d_usize) -> [return: bb%d, unwind continue]' % (fresh(), s.canaries[op[1]], len(blocks) + 1))
                    emit([], '_%d = mem::drop::<Desync<Canary>>(move _%d) -> [return: bb%d, unwind continue]' % (fresh(), dv, len(blocks) + 1))
                    emit([], '_%d = __drop_end(const %d_usize) -> [return: bb%d, unwind continue]' % (fresh(), s.canaries[op[1]], len(blocks) + 1))
                elif kind == 'set_max':
                    sr = fresh()
                    emit([], '_%d = desync_scheduler::scheduler::<\'_>() -> [return: bb%d, unwind continue]' % (sr, len(blocks) + 1))
                    emit([], '_%d = desync_scheduler::Scheduler::set_max_threads(copy _%d, const %d_usize) -> [return: bb%d, unwind continue]' % (fresh(), sr, op[1], len(blocks) + 1))
                elif kind == 'despawn':
                    sr = fresh()
                    emit([], '_%d = desync_scheduler::scheduler::<\'_>() -> [return: bb%d, unwind continue]' % (sr, len(blocks) + 1))
                    emit([], '_%d = desync_scheduler::Scheduler::despawn_threads_if_overloaded(copy _%d) -> [return: bb%d, unwind continue]' % (fresh(), sr, len(blocks) + 1))
                    emit([], '_%d = __despawned() -> [return: bb%d, unwind continue]' % (fresh(), len(blocks) + 1))
                elif kind == 'wait_gate':
                    emit([], '_%d = __gate_wait(const %d_usize) -> [return: bb%d, unwind continue]' % (fresh(), op[1], len(blocks) + 1))
                elif kind == 'd_give':
                    dv = dvars[op[1]]
                    emit([], '_%d = __give(const %d_usize, move _%d) -> [return: bb%d, unwind continue]' % (fresh(), op[2], dv, len(blocks) + 1))
                elif kind == 'd_take':
                    dv = fresh(); dvars[op[2]] = dv
                    emit([], '_%d = __take(const %d_usize) -> [return: bb%d, unwind continue]' % (dv, op[1], len(blocks) + 1))
                else: raise EncodeError('scenario op ' + kind)
            emit([], 'return')
            L = ['fn scen::thread_%s(%s) -> () {' % (name, ', '.join('_%d: &Arc<JobQueue>' % (1 + q) for q in range(nq)))]
            for i, (stmts, term) in enumerate(blocks):
                L.append('    bb%d: {' % i)
                for st in stmts: L.append('        %s;' % st)
                L.append('        %s;' % term); L.append('    }')
            L += ['}', '']
            T.append('\n'.join(L))
            s.thread_specs.append((name, 'scen::thread_%s' % name, th))
        T.append('''fn scen::GateFut::poll(_1: Pin<&mut GateFut>, _2: &mut Context<'_>) -> Poll<u32> {
    bb0: {
        _3 = __gate_mode(copy _1) -> [return: bb1, unwind continue];
    }
    bb1: {
        switchInt(move _3) -> [0: bb2, 1: bb6, 3: bb7, otherwise: bb4];
    }
    bb2: {
        _0 = __gate_poll(copy _1, copy _2) -> [return: bb3, unwind continue];
    }
    bb3: {
        return;
    }
    bb4: {
        _4 = Context::waker(copy _2) -> [return: bb5, unwind continue];
    }
    bb5: {
        _5 = Waker::wake_by_ref(copy _4) -> [return: bb6, unwind continue];
    }
    bb6: {
        _6 = __panic() -> [return: bb3, unwind continue];
    }
    bb7: {
        _7 = __gate_yielded(copy _1) -> [return: bb8, unwind continue];
    }
    bb8: {
        switchInt(move _7) -> [0: bb9, otherwise: bb2];
    }
    bb9: {
        _4 = Context::waker(copy _2) -> [return: bb10, unwind continue];
    }
    bb10: {
        _5 = Waker::wake_by_ref(copy _4) -> [return: bb11, unwind continue];
    }
    bb11: {
        _0 = __gate_poll_yield(copy _1) -> [return: bb3, unwind continue];
    }
}

fn scen::GateFut::drop(_1: &mut GateFut) -> () {
    bb0: {
        _0 = __gatefut_drop(copy _1) -> [return: bb1, unwind continue];
    }
    bb1: {
        return;
    }
}
''')
        T.append('''fn scen::GateStream::poll_next(_1: Pin<&mut GateStream>, _2: &mut Context<'_>) -> Poll<Option<usize>> {
    bb0: {
        _0 = __stream_poll(copy _1, copy _2) -> [return: bb1, unwind continue];
    }
    bb1: {
        return;
    }
}

fn scen::DropFlag::drop(_1: &mut DropFlag) -> () {
    bb0: {
        _2 = __dropflag(copy _1) -> [return: bb1, unwind continue];
    }
    bb1: {
        _3 = __dropflag_wake(copy _1) -> [return: bb2, unwind continue];
    }
    bb2: {
        _4 = discriminant(_3);
        switchInt(move _4) -> [0: bb4, otherwise: bb3];
    }
    bb3: {
        _5 = move ((_3 as Some).0: Waker);
        _6 = Waker::wake(move _5) -> [return: bb4, unwind continue];
    }
    bb4: {
        return;
    }
}
''')
        T.append('''fn scen::Canary::drop(_1: &mut Canary) -> () {
    bb0: {
        _0 = __canary_drop(copy _1) -> [return: bb1, unwind continue];
    }
    bb1: {
        return;
    }
}
''')
        # pool thread main: runs the closure given to Builder::spawn
        T.append('''fn scen::pool_main(_1: F) -> () {
    bb0: {
        _2 = ();
        _0 = <F as FnOnce<()>>::call_once(move _1, move _2) -> [return: bb1, unwind continue];
    }
    bb1: {
        return;
    }
}
''')
        text = '\n'.join(T)
        s.scen_text = text
        fns = mp.parse(text, origin='scenario')
        for name, l in fns.items():
            for f in l:
                f.origin = 'scenario'; s.prog.add_fn(f)
        s.prog.traitm[('Future', 'GateFut', 'poll')] = s.prog.byname['scen::GateFut::poll']
        s.prog.drops['GateFut'] = s.prog.byname['scen::GateFut::drop']
        s.prog.drops['Canary'] = s.prog.byname['scen::Canary::drop']
        s.prog.drops['DropFlag'] = s.prog.byname['scen::DropFlag::drop']
        s.prog.traitm[('Stream', 'GateStream', 'poll_next')] = s.prog.byname['scen::GateStream::poll_next']
        # threads
        init = m.add_thread('init', s.prog.byname['scen::init'], [])
        init.role = 'init'
        m.nthreads_max = 1 + len(s.thread_specs) + sc.get('pool_slots', sc.get('pool_max', 0))
        # run init to completion (single-threaded, concrete)
        m.now = 0
        for k in range(50):
            if not init.live(): break
            m.step(init, TRUE)
        if init.finished is not TRUE: raise EncodeError('scenario init did not finish concretely: %r' % (list(init.states),))
        m.trace_sites = []
        qargs = [Ref.to(s.globals[1 + q]) for q in range(nq)]
        for name, fname, spec in s.thread_specs:
            t = m.add_thread(name, s.prog.byname[fname], qargs)
            t.role = 'caller'; t.final = bool(spec.get('final')); t.after = spec.get('after')
        for i in range(sc.get('pool_slots', sc.get('pool_max', 0))):
            t = m.add_thread('P%d' % i, s.prog.byname['scen::pool_main'], [None], started=FALSE)
            t.role = 'pool'; t.is_pool = True; t.pool_index = i
        for op in s.ops.values():
            op['tid'] = [t.tid for t in m.threads if t.name == op['thread']][0]
    def future_closure(s, tname, oi, cl, obj, opid, fk, tok):
        """closure passed to future_desync/future_sync: enters the object and returns the user future (ready, or pending on a gate)"""
        gate = fk[1] if isinstance(fk, (list, tuple)) else {'panic': 97, 'wake_panic': 98, 'yield': 96}.get(fk, 99)
        return '''fn scen::thread_%s::{closure#%d}(_1: {closure@%s}) -> GateFut {
    bb0: {
        _2 = __enter(const %d_usize, const %d_usize) -> [return: bb1, unwind continue];
    }
    bb1: {
        _0 = GateFut { gate: const %d_usize, op: const %d_usize, obj: const %d_usize, tok: const %d_u32, done: const false };
        return;
    }
}
''' % (tname, oi, cl, obj, opid, gate, opid, obj, tok)
    def d_job_closure(s, tname, oi, cl, obj, opid, returns, tok):
        """closure given to Desync::{desync,sync,try_sync}: touches the protected value at entry and exit"""
        return '''fn scen::thread_%s::{closure#%d}(_1: {closure@%s}, _2: &mut Canary) -> %s {
    bb0: {
        _3 = __enter(const %d_usize, const %d_usize) -> [return: bb1, unwind continue];
    }
    bb1: {
        _4 = __touch(copy _2, const %d_usize) -> [return: bb2, unwind continue];
    }
    bb2: {
        _5 = __yield() -> [return: bb3, unwind continue];
    }
    bb3: {
        _6 = __touch(copy _2, const %d_usize) -> [return: bb4, unwind continue];
    }
    bb4: {
        _7 = __exit(const %d_usize, const %d_usize) -> [return: bb5, unwind continue];
    }
    bb5: {
%s        return;
    }
}
''' % (tname, oi, cl, 'u32' if returns else '()', obj, opid, opid, opid, obj, opid, ('        _0 = const %d_u32;\n' % tok) if returns else '')
    def pipe_process_closure(s, tname, oi, cl, obj, base, n, pk):
        """FnMut(&mut Canary, usize) -> BoxFuture<()>: enters the object for item k (operation base+k) and returns a future that leaves it when done"""
        gate = pk[1] if isinstance(pk, (list, tuple)) else 99
        L = ['fn scen::thread_%s::{closure#%d}(_1: &mut {closure@%s}, _2: &mut Canary, _3: usize) -> Pin<Box<GateFut>> {' % (tname, oi, cl)]
        L += ['    bb0: {', '        switchInt(copy _3) -> [%s, otherwise: bb1];' % ', '.join('%d: bb%d' % (k, 4 + 3 * k) for k in range(n)), '    }',
              '    bb1: {', '        unreachable;', '    }',
              '    bb2: {', '        _0 = Pin::<Box<GateFut>>::new_unchecked(move _7) -> [return: bb3, unwind continue];', '    }',
              '    bb3: {', '        return;', '    }']
        for k in range(n):
            b = 4 + 3 * k; opid = base + k
            L += ['    bb%d: {' % b, '        _4 = __enter(const %d_usize, const %d_usize) -> [return: bb%d, unwind continue];' % (obj, opid, b + 1), '    }',
                  '    bb%d: {' % (b + 1), '        _5 = __touch(copy _2, const %d_usize) -> [return: bb%d, unwind continue];' % (opid, b + 2), '    }',
                  '    bb%d: {' % (b + 2), '        _6 = GateFut { gate: const %d_usize, op: const %d_usize, obj: const %d_usize, tok: const %d_u32, done: const false, data: copy _2 };' % (gate, opid, obj, 40 + opid),
                  '        _7 = Box::<GateFut>::new(move _6) -> [return: bb2, unwind continue];', '    }']
        L += ['}', '']
        return '\n'.join(L)
    def d_future_closure(s, tname, oi, cl, obj, opid, fk, tok):
        gate = fk[1] if isinstance(fk, (list, tuple)) else 99
        return '''fn scen::thread_%s::{closure#%d}(_1: {closure@%s}, _2: &mut Canary) -> Pin<Box<GateFut>> {
    bb0: {
        _3 = __enter(const %d_usize, const %d_usize) -> [return: bb1, unwind continue];
    }
    bb1: {
        _4 = __touch(copy _2, const %d_usize) -> [return: bb2, unwind continue];
    }
    bb2: {
        _5 = GateFut { gate: const %d_usize, op: const %d_usize, obj: const %d_usize, tok: const %d_u32, done: const false, data: copy _2 };
        _6 = Box::<GateFut>::new(move _5) -> [return: bb3, unwind continue];
    }
    bb3: {
        _0 = Pin::<Box<GateFut>>::new_unchecked(move _6) -> [return: bb4, unwind continue];
    }
    bb4: {
        return;
    }
}
''' % (tname, oi, cl, obj, opid, opid, gate, opid, obj, tok)
    def job_closure(s, tname, oi, cl, obj, opid, body, returns, tok, nest=None, nq=0):
        acts = body.get('acts', ['enter', 'yield', 'exit'])
        L = ['fn scen::thread_%s::{closure#%d}(_1: {closure@%s}) -> %s {' % (tname, oi, cl, 'u32' if returns else '()')]
        b = 0; loc = [40]
        def fresh():
            loc[0] += 1; return loc[0]
        for ai, a in enumerate(acts):
            if isinstance(a, (list, tuple)) and a[0] in ('desync', 'sync'):
                # schedule an operation on queue a[1] from inside this job
                nop, ncl = nest[ai]
                c_ = fresh(); q_ = fresh(); r_ = fresh()
                fn = ('desync_scheduler::desync::<{closure@%s}>' if a[0] == 'desync' else 'desync_scheduler::sync::<u32, {closure@%s}>') % ncl
                L += ['    bb%d: {' % b, '        _%d = {closure@%s} { };' % (c_, ncl), '        _%d = __op_inv(const %d_usize) -> [return: bb%d, unwind continue];' % (fresh(), nop, b + 1), '    }',
                      '    bb%d: {' % (b + 1), '        _%d = copy (_1.%d: &Arc<JobQueue>);' % (q_, a[1]), '        _%d = %s(copy _%d, move _%d) -> [return: bb%d, unwind continue];' % (r_, fn, q_, c_, b + 2), '    }',
                      '    bb%d: {' % (b + 2), '        _%d = __op_done(const %d_usize, move _%d) -> [return: bb%d, unwind continue];' % (fresh(), nop, r_, b + 3), '    }']
                b += 3
                continue
            if a == 'enter': call = '__enter(const %d_usize, const %d_usize)' % (obj, opid)
            elif a == 'exit': call = '__exit(const %d_usize, const %d_usize)' % (obj, opid)
            elif a == 'yield': call = '__yield()'
            elif a == 'panic': call = '__panic()'
            elif a[0] == 'gate': call = '__gate_wait(const %d_usize)' % a[1]
            else: raise EncodeError('job act %r' % (a,))
            L += ['    bb%d: {' % b, '        _%d = %s -> [return: bb%d, unwind continue];' % (5 + b, call, b + 1), '    }']
            b += 1
        L += ['    bb%d: {' % b] + (['        _0 = const %d_u32;' % tok] if returns else []) + ['        return;', '    }', '}', '']
        return '\n'.join(L)
    # ------------------------------------------------------------------ driving
    def run(s, R, B, order=None, verbose=False, fixed=None, seq=None):
        m = s.m
        ths = [t for t in m.threads if t.role != 'init' and not t.final]
        finals = [t for t in m.threads if t.final]
        if order is not None: ths = [ths[i] for i in order]
        s.actvars = []; s.side = []
        K = 1
        t0 = time.time()
        # slot sequence: R passes over the thread order, or an explicit sequence of thread names (`seq`, a targeted context bound:
        # every schedule whose sequence of thread segments embeds into it is covered, each slot taking 0..B visible steps)
        runfree = set()
        if seq is not None:
            byname = {t.name: t for t in ths}
            slots = [(i, byname[n.rstrip('!')]) for i, n in enumerate(seq)]
            # 'A!': the thread runs until it finishes or blocks, without budget variables (a deterministic segment: used for a prefix in which
            # the thread is alone, where every interleaving is equivalent; a restriction of the schedules covered, stated in the bounds)
            runfree = set(i for i, n in enumerate(seq) if n.endswith('!'))
        else:
            slots = [(r, th) for r in range(R) for th in ths]
        if True:
            for r, th in slots:
                prev = TRUE
                if r in runfree:
                    for j in range(4 * B):
                        if not th.live(): break
                        m.now = K
                        took = m.step(th, TRUE, slot=(r, th.tid), stepno=j)
                        K += 1
                        if took is FALSE: break
                    else: raise EncodeError('run-free slot %d of %s does not block or finish within %d steps' % (r, th.name, 4 * B))
                    if verbose: print('  slot r=%d %-4s (run-free) positions=%d nodes=%d t=%.1fs' % (r, th.name, len(th.states), nodes(), time.time() - t0))
                    continue
                for j in range(B):
                    if not th.live(): break
                    a = ActVar('a_%d_%d_%d' % (r, th.tid, j), (r, th.tid), j)
                    if j > 0 and fixed is None:
                        s.side.append(Implies(a, lasta))
                        if m.pruner is not None: m.pruner.add(Implies(a, lasta))
                    lasta = a
                    if fixed is not None: a = BoolC(bool(fixed.get('a_%d_%d_%d' % (r, th.tid, j), False)))
                    act = And(prev, a)
                    m.now = K
                    took = m.step(th, act, slot=(r, th.tid), stepno=j)
                    s.actvars.append((r, th.tid, j, a, K, took))
                    K += 1
                    prev = act
                    if took is FALSE: break
                if verbose:
                    print('  slot r=%d %-4s positions=%d nodes=%d t=%.1fs' % (r, th.name, len(th.states), nodes(), time.time() - t0))
        # final phase: probe threads run alone (they wait for every caller to have returned), no budget variables
        for th in finals:
            for j in range(3 * B):
                if not th.live(): break
                m.now = K
                b0 = m.stats['blocks']; tt = time.time()
                took = m.step(th, TRUE, slot=(R, th.tid), stepno=j)
                if verbose: print('     final step %d: states=%d blocks=%d %.1fs nodes=%d' % (j, len(th.states), m.stats['blocks'] - b0, time.time() - tt, nodes()))
                K += 1
                if took is FALSE: break
            if verbose: print('  final %-4s positions=%d nodes=%d t=%.1fs' % (th.name, len(th.states), nodes(), time.time() - t0))
        s.K = K
        if K >= (1 << W) - 1: raise EncodeError('time stamps overflow W=%d' % W)
        s.final_predicates()
    def final_predicates(s):
        m = s.m
        s.fin = {}; s.blocked = {}; s.runnable = {}; s.idle = {}
        for th in m.threads:
            if th.role == 'init': continue
            run = FALSE; blk = FALSE; idle = FALSE
            for poskey, st in th.states.items():
                G = st.g
                if poskey[2] == 'E' or G is FALSE: continue
                cp, b, ph = poskey
                if ph == 'S':
                    run = Or(run, G); continue
                nat, t = m.site_native(cp, b)
                m.cur = th; m.st = st
                args = [m.operand(st, a) for a in t[3]]
                en = nat.enabled(m, th, args, ph, G)
                run = Or(run, And(G, en)); blk = Or(blk, And(G, Not(en)))
                if nat.name.endswith('Receiver::recv') and th.role == 'pool': idle = Or(idle, And(G, Not(en)))
            dead = th.dead
            s.fin[th.tid] = Or(th.finished, th.dead); s.runnable[th.tid] = run; s.blocked[th.tid] = Or(blk, dead); s.idle[th.tid] = idle
        callers = [t for t in m.threads if t.role in ('caller', 'waker')]
        pools = [t for t in m.threads if t.role == 'pool']
        norun = And(*[Not(s.runnable[t.tid]) for t in callers + pools])
        allfin = And(*[s.fin[t.tid] for t in callers])
        s.deadlock = And(norun, Not(allfin))
        s.allfin = allfin
        s.norun = norun
        s.quiescent = And(allfin, *[Or(Not(t.started), s.idle[t.tid], s.fin[t.tid]) for t in pools])
        s.anypanic = Or(*[g for _, _, g in m.panics]) if m.panics else FALSE
