// vsched: schedule-following replacements for the std / futures primitives desync imports.
// Included into the crate as `crate::vsched` when built with `--cfg desync_verif` (hook H2).
// Real OS threads are used, but only the thread holding the token runs; every *visible* operation
// (the same set MIRSEQ treats as scheduling points) first passes `gate`, which follows the schedule
// produced by the solver and afterwards continues deterministically until completion or deadlock.

use std::cell::Cell;
use std::sync::{Condvar as StdCondvar, Mutex as StdMutex};

#[derive(Clone, Debug, PartialEq)]
pub enum TState { NotStarted, Ready, Finished }

pub struct ThreadInfo { pub name: String, pub state: TState, pub token: bool, pub steps: usize, pub panicked: bool }

pub struct Runtime {
    pub threads: Vec<ThreadInfo>,
    pub cur: usize,                       // id of the thread allowed to run (usize::MAX: nobody yet)
    pub schedule: Vec<(String, String)>,  // (thread name, operation) for every visible step of the model's schedule
    pub slot: usize,
    pub free_run: bool,
    pub idle_passes: usize,               // consecutive token passes without progress in free-run mode
    pub verdict: Option<String>,          // DEADLOCK / DIVERGED: ...
    pub log: Vec<String>,
    pub max_threads: usize,
    pub total_steps: usize,
    pub step_limit: usize,
    pub pool_names: usize,
}

pub struct Global { pub rt: StdMutex<Runtime>, pub cv: StdCondvar }

lazy_static! {
    pub static ref G: Global = Global {
        rt: StdMutex::new(Runtime { threads: vec![], cur: usize::MAX, schedule: vec![], slot: 0, free_run: false, idle_passes: 0, verdict: None,
                                    log: vec![], max_threads: 0, total_steps: 0, step_limit: 100000, pool_names: 0 }),
        cv: StdCondvar::new(),
    };
}

thread_local! { static ME: Cell<usize> = Cell::new(usize::MAX); static LOC: Cell<Option<&'static std::panic::Location<'static>>> = Cell::new(None); }
/// debugging aid: the source location of the library call behind the next visible operation (shown in the replay log only)
pub fn at(l: &'static std::panic::Location<'static>) { LOC.with(|c| c.set(Some(l))); }

pub fn me() -> usize { ME.with(|m| m.get()) }
pub static JOINED: std::sync::atomic::AtomicUsize = std::sync::atomic::AtomicUsize::new(0);
/// pool threads spawned by the scheduler and not yet joined (the census MIRSEQ keeps for C17)
pub fn live_pool_threads() -> usize { let rt = G.rt.lock().unwrap_or_else(|e| e.into_inner()); rt.pool_names - JOINED.load(std::sync::atomic::Ordering::SeqCst) }
pub fn configured_max() -> usize { G.rt.lock().unwrap_or_else(|e| e.into_inner()).max_threads }

pub fn configure(max_threads: usize, schedule: Vec<(String, String)>) {
    let mut rt = G.rt.lock().unwrap_or_else(|e| e.into_inner());
    rt.max_threads = max_threads; rt.schedule = schedule; rt.slot = 0; rt.free_run = false; rt.verdict = None;
    rt.threads.clear(); rt.cur = usize::MAX; rt.log.clear(); rt.total_steps = 0; rt.idle_passes = 0; rt.pool_names = 0;
    JOINED.store(0, std::sync::atomic::Ordering::SeqCst);
}

fn register(name: &str) -> usize {
    let mut rt = G.rt.lock().unwrap_or_else(|e| e.into_inner());
    rt.threads.push(ThreadInfo { name: name.to_string(), state: TState::NotStarted, token: false, steps: 0, panicked: false });
    rt.threads.len() - 1
}

/// Decide who runs next; called with the lock held by the thread that currently owns the token (or by the controller).
fn pick_next(rt: &mut Runtime, from: usize) {
    if rt.verdict.is_some() { rt.cur = usize::MAX - 1; return; }
    if !rt.free_run {
        if rt.slot < rt.schedule.len() {
            let want = rt.schedule[rt.slot].0.clone();
            if let Some(i) = rt.threads.iter().position(|t| t.name == want) {
                if rt.threads[i].state == TState::Finished {
                    rt.verdict = Some(format!("DIVERGED: schedule wants finished thread {}", want)); rt.cur = usize::MAX - 1; return;
                }
                rt.cur = i; return;
            } else {
                rt.verdict = Some(format!("DIVERGED: schedule wants unknown/unspawned thread {}", want)); rt.cur = usize::MAX - 1; return;
            }
        }
        rt.free_run = true; rt.idle_passes = 0;
    }
    // free run: round-robin over unfinished threads starting after `from`
    let n = rt.threads.len();
    if n == 0 { rt.cur = usize::MAX - 1; return; }
    let live: Vec<usize> = (0..n).filter(|&i| rt.threads[i].state != TState::Finished).collect();
    if live.is_empty() { rt.cur = usize::MAX - 1; return; }
    if rt.idle_passes > live.len() + 1 {
        let stuck: Vec<String> = live.iter().map(|&i| rt.threads[i].name.clone()).collect();
        rt.verdict = Some(format!("QUIET: no thread can move; unfinished: {}", stuck.join(","))); rt.cur = usize::MAX - 1; return;
    }
    let start = if from == usize::MAX { 0 } else { (from + 1) % n };
    for k in 0..n {
        let i = (start + k) % n;
        if rt.threads[i].state != TState::Finished { rt.cur = i; return; }
    }
}

/// Every visible operation passes here.  `enabled` is evaluated with the token held; a disabled operation gives the token away.
pub fn gate<F: FnMut(&Runtime) -> bool>(what: &str, mut enabled: F) {
    let id = me();
    if id == usize::MAX { return; }           // uncontrolled thread (harness set-up): run freely
    let mut rt = G.rt.lock().unwrap_or_else(|e| e.into_inner());
    // arriving at a gate ends my previous segment: hand the token over if the schedule says so
    loop {
        if rt.verdict.is_some() { drop(rt); abort_thread(); }
        if rt.cur != id {
            if rt.cur == usize::MAX { /* not started yet: controller will pick */ }
            rt = G.cv.wait(rt).unwrap_or_else(|e| e.into_inner());
            continue;
        }
        // I hold the token
        if !rt.free_run {
            if rt.slot < rt.schedule.len() {
                if rt.schedule[rt.slot].0 != rt.threads[id].name { pick_next(&mut rt, id); G.cv.notify_all(); continue; }
                let expect = rt.schedule[rt.slot].1.clone();
                if canon(&expect) != canon(what) {
                    rt.verdict = Some(format!("DIVERGED: step {}: {} is at `{}` but the model's schedule has `{}`", rt.slot, rt.threads[id].name, what, expect));
                    G.cv.notify_all(); drop(rt); abort_thread();
                }
                if !enabled(&rt) {
                    rt.verdict = Some(format!("DIVERGED: step {}: {} scheduled for {} but the operation is not enabled", rt.slot, rt.threads[id].name, what));
                    G.cv.notify_all(); drop(rt); abort_thread();
                }
                rt.slot += 1;
                break;
            }
            rt.free_run = true; rt.idle_passes = 0;
        }
        if enabled(&rt) { rt.idle_passes = 0; break; }
        rt.idle_passes += 1;
        pick_next(&mut rt, id); G.cv.notify_all();
        if rt.cur == id && rt.verdict.is_none() { continue; }
    }
    rt.threads[id].steps += 1; rt.total_steps += 1;
    let loc = LOC.with(|c| c.take());
    let line = match loc { Some(l) => format!("{} {} @{}:{}", rt.threads[id].name, what, l.file().rsplit('/').next().unwrap_or(""), l.line()), None => format!("{} {}", rt.threads[id].name, what) };
    rt.log.push(line);
    if rt.total_steps > rt.step_limit { rt.verdict = Some("STEP-LIMIT".to_string()); G.cv.notify_all(); drop(rt); abort_thread(); }
    // proceed with the operation; the token stays with me until my next gate
}

fn canon(s: &str) -> String {
    let last = s.rsplit("::").next().unwrap_or(s);
    let last = last.trim_start_matches("__oneshot_").trim_start_matches("__");
    last.to_string()
}

fn abort_thread() -> ! {
    // the run is over (verdict set): stay where we are until the controller exits the process.  Unwinding out of library code
    // instead would run its Drop impls, which pass gates again (a second panic while unwinding aborts the process) and would
    // make a blocked thread look finished.
    loop { std::thread::park(); }
}
pub struct AbortReplay;

fn thread_main<F: FnOnce() -> T, T>(id: usize, f: F) -> std::thread::Result<T> {
    ME.with(|m| m.set(id));
    {
        let mut rt = G.rt.lock().unwrap_or_else(|e| e.into_inner());
        rt.threads[id].state = TState::Ready;
        G.cv.notify_all();
    }
    let r = std::panic::catch_unwind(std::panic::AssertUnwindSafe(|| { gate("start", |_| true); f() }));
    let mut rt = G.rt.lock().unwrap_or_else(|e| e.into_inner());
    rt.threads[id].state = TState::Finished;
    if let Err(ref e) = r { if !e.is::<AbortReplay>() { rt.threads[id].panicked = true; let n = rt.threads[id].name.clone(); rt.log.push(format!("{} PANICKED", n)); } }
    if rt.cur == id { pick_next(&mut rt, id); }
    G.cv.notify_all();
    r
}

/// Spawn a controlled harness thread (callers, wakers).  It waits for the token before doing anything.
pub fn spawn_controlled<F: FnOnce() + Send + 'static>(name: &str, f: F) -> std::thread::JoinHandle<()> {
    let id = register(name);
    std::thread::Builder::new().name(name.to_string()).spawn(move || { let _ = thread_main(id, f); }).unwrap()
}

/// Called by the (uncontrolled) test main thread: start following the schedule and wait for the end of the run.
pub fn run_to_completion(timeout_ms: u64) -> (Option<String>, Vec<String>, Vec<(String, bool, bool)>) {
    let deadline = std::time::Instant::now() + std::time::Duration::from_millis(timeout_ms);
    let mut rt = G.rt.lock().unwrap_or_else(|e| e.into_inner());
    // wait until every registered thread is ready, then hand out the first token
    loop {
        if rt.threads.iter().all(|t| t.state != TState::NotStarted) { break; }
        let (g, _) = G.cv.wait_timeout(rt, std::time::Duration::from_millis(50)).unwrap_or_else(|e| e.into_inner()); rt = g;
        if std::time::Instant::now() > deadline { break; }
    }
    pick_next(&mut rt, usize::MAX); G.cv.notify_all();
    loop {
        let alldone = rt.threads.iter().all(|t| t.state == TState::Finished);
        if alldone || rt.verdict.is_some() { break; }
        let (g, _) = G.cv.wait_timeout(rt, std::time::Duration::from_millis(50)).unwrap_or_else(|e| e.into_inner()); rt = g;
        if std::time::Instant::now() > deadline { rt.verdict = Some("TIMEOUT".to_string()); break; }
    }
    G.cv.notify_all();
    let st = rt.threads.iter().map(|t| (t.name.clone(), t.state == TState::Finished, t.panicked)).collect();
    (rt.verdict.clone(), rt.log.clone(), st)
}

pub fn harness_event<F: FnMut(&Runtime) -> bool>(what: &str, enabled: F) { gate(what, enabled) }
pub fn thread_finished(rt: &Runtime, name: &str) -> bool { rt.threads.iter().any(|t| t.name == name && t.state == TState::Finished) }

// ------------------------------------------------------------------------------------------------ sync
pub mod sync {
    pub use std::sync::{Arc, Weak, LockResult, PoisonError, TryLockError, TryLockResult};
    pub use std::sync::atomic;
    use std::cell::UnsafeCell;
    use std::sync::atomic::{AtomicBool, Ordering};
    use super::gate;

    pub struct Mutex<T: ?Sized> { locked: AtomicBool, poisoned: AtomicBool, data: UnsafeCell<T> }
    unsafe impl<T: ?Sized + Send> Send for Mutex<T> {}
    unsafe impl<T: ?Sized + Send> Sync for Mutex<T> {}
    pub struct MutexGuard<'a, T: ?Sized + 'a> { m: &'a Mutex<T>, pan: bool }

    impl<T> Mutex<T> {
        pub fn new(t: T) -> Mutex<T> { Mutex { locked: AtomicBool::new(false), poisoned: AtomicBool::new(false), data: UnsafeCell::new(t) } }
    }
    impl<T: ?Sized> Mutex<T> {
        #[track_caller]
        pub fn lock(&self) -> LockResult<MutexGuard<'_, T>> {
            super::at(std::panic::Location::caller());
            gate("Mutex::lock", |_| !self.locked.load(Ordering::SeqCst));
            self.locked.store(true, Ordering::SeqCst);
            let g = MutexGuard { m: self, pan: std::thread::panicking() };
            if self.poisoned.load(Ordering::SeqCst) { Err(PoisonError::new(g)) } else { Ok(g) }
        }
        #[track_caller]
        pub fn try_lock(&self) -> TryLockResult<MutexGuard<'_, T>> {
            super::at(std::panic::Location::caller());
            gate("Mutex::try_lock", |_| true);
            if self.locked.load(Ordering::SeqCst) { return Err(TryLockError::WouldBlock); }
            self.locked.store(true, Ordering::SeqCst);
            let g = MutexGuard { m: self, pan: std::thread::panicking() };
            if self.poisoned.load(Ordering::SeqCst) { Err(TryLockError::Poisoned(PoisonError::new(g))) } else { Ok(g) }
        }
    }
    impl<'a, T: ?Sized> std::ops::Deref for MutexGuard<'a, T> { type Target = T; fn deref(&self) -> &T { unsafe { &*self.m.data.get() } } }
    impl<'a, T: ?Sized> std::ops::DerefMut for MutexGuard<'a, T> { fn deref_mut(&mut self) -> &mut T { unsafe { &mut *self.m.data.get() } } }
    impl<'a, T: ?Sized> Drop for MutexGuard<'a, T> {
        fn drop(&mut self) {
            // unlocking a Mutex<bool> is a scheduling point (same rule as the model: such mutexes are try_locked elsewhere)
            if std::any::type_name::<T>() == "bool" && !std::thread::panicking() { gate("mutex_unlock", |_| true); }
            if std::thread::panicking() && !self.pan { self.m.poisoned.store(true, Ordering::SeqCst); }
            self.m.locked.store(false, Ordering::SeqCst);
        }
    }
    impl<T: ?Sized + std::fmt::Debug> std::fmt::Debug for Mutex<T> { fn fmt(&self, f: &mut std::fmt::Formatter) -> std::fmt::Result { f.write_str("Mutex") } }

    pub struct Condvar { sleepers: std::sync::Mutex<Vec<(usize, bool)>> }     // (thread id, notified)
    impl Condvar {
        pub fn new() -> Condvar { Condvar { sleepers: std::sync::Mutex::new(vec![]) } }
        pub fn wait<'a, T>(&self, guard: MutexGuard<'a, T>) -> LockResult<MutexGuard<'a, T>> {
            let me = super::me();
            gate("Condvar::wait", |_| true);
            let m = guard.m;
            std::mem::forget(guard);                       // the release is part of the wait, not a separate unlock step
            m.locked.store(false, Ordering::SeqCst);
            self.sleepers.lock().unwrap().push((me, false));
            gate("Condvar::wait", |_| { self.sleepers.lock().unwrap().iter().any(|&(t, n)| t == me && n) && !m.locked.load(Ordering::SeqCst) });
            self.sleepers.lock().unwrap().retain(|&(t, _)| t != me);
            m.locked.store(true, Ordering::SeqCst);
            Ok(MutexGuard { m, pan: std::thread::panicking() })
        }
        pub fn notify_one(&self) {
            gate("Condvar::notify_one", |_| true);
            let mut s = self.sleepers.lock().unwrap();
            let mut best: Option<usize> = None;
            for (i, &(t, n)) in s.iter().enumerate() { if !n && best.map_or(true, |b| t < s[b].0) { best = Some(i); } }
            if let Some(i) = best { s[i].1 = true; }
        }
        pub fn notify_all(&self) {
            gate("Condvar::notify_all", |_| true);
            for e in self.sleepers.lock().unwrap().iter_mut() { e.1 = true; }
        }
    }

    pub mod mpsc {
        use std::collections::VecDeque;
        use std::sync::{Arc, Mutex as StdMutex};
        use super::super::gate;
        struct Chan<T> { q: VecDeque<T>, senders: usize, rx_alive: bool }
        pub struct Sender<T> { c: Arc<StdMutex<Chan<T>>> }
        pub struct Receiver<T> { c: Arc<StdMutex<Chan<T>>> }
        pub struct SendError<T>(pub T);
        #[derive(Debug)] pub struct RecvError;
        impl<T> std::fmt::Debug for SendError<T> { fn fmt(&self, f: &mut std::fmt::Formatter) -> std::fmt::Result { f.write_str("SendError") } }
        pub fn channel<T>() -> (Sender<T>, Receiver<T>) {
            let c = Arc::new(StdMutex::new(Chan { q: VecDeque::new(), senders: 1, rx_alive: true }));
            (Sender { c: c.clone() }, Receiver { c })
        }
        impl<T> Sender<T> {
            pub fn send(&self, t: T) -> Result<(), SendError<T>> {
                gate("Sender::send", |_| true);
                let mut c = self.c.lock().unwrap();
                if !c.rx_alive { return Err(SendError(t)); }
                c.q.push_back(t); Ok(())
            }
        }
        impl<T> Clone for Sender<T> { fn clone(&self) -> Self { self.c.lock().unwrap().senders += 1; Sender { c: self.c.clone() } } }
        impl<T> Drop for Sender<T> { fn drop(&mut self) { self.c.lock().unwrap().senders -= 1; } }
        impl<T> Drop for Receiver<T> { fn drop(&mut self) { self.c.lock().unwrap().rx_alive = false; } }
        impl<T> Receiver<T> {
            pub fn recv(&self) -> Result<T, RecvError> {
                gate("Receiver::recv", |_| { let c = self.c.lock().unwrap(); !c.q.is_empty() || c.senders == 0 });
                let mut c = self.c.lock().unwrap();
                match c.q.pop_front() { Some(t) => Ok(t), None => Err(RecvError) }
            }
        }
    }
}

// ------------------------------------------------------------------------------------------------ thread
pub mod thread {
    use super::{gate, G, TState, thread_main, register};
    use std::sync::Arc;

    #[derive(Clone)]
    pub struct Thread { id: usize }
    impl Thread {
        pub fn unpark(&self) {
            gate("Thread::unpark", |_| true);
            let mut rt = G.rt.lock().unwrap_or_else(|e| e.into_inner());
            if self.id < rt.threads.len() { rt.threads[self.id].token = true; }
        }
    }
    pub fn current() -> Thread { Thread { id: super::me() } }
    pub fn park() {
        let id = super::me();
        gate("thread::park", |rt| rt.threads[id].token);
        let mut rt = G.rt.lock().unwrap_or_else(|e| e.into_inner());
        rt.threads[id].token = false;
    }
    pub fn panicking() -> bool { std::thread::panicking() }

    pub struct Builder { name: Option<String> }
    pub struct JoinHandle<T> { h: Option<std::thread::JoinHandle<std::thread::Result<T>>>, id: usize, done: Arc<std::sync::atomic::AtomicBool> }
    impl Builder {
        pub fn new() -> Builder { Builder { name: None } }
        pub fn name(mut self, n: String) -> Builder { self.name = Some(n); self }
        pub fn spawn<F, T>(self, f: F) -> std::io::Result<JoinHandle<T>> where F: FnOnce() -> T + Send + 'static, T: Send + 'static {
            gate("Builder::spawn", |_| true);
            let pname = { let mut rt = G.rt.lock().unwrap_or_else(|e| e.into_inner()); let k = rt.pool_names; rt.pool_names += 1; format!("P{}", k) };
            let id = register(&pname);
            let done = Arc::new(std::sync::atomic::AtomicBool::new(false));
            let d2 = done.clone();
            let h = std::thread::Builder::new().name(pname).spawn(move || { let r = thread_main(id, f); d2.store(true, std::sync::atomic::Ordering::SeqCst); r })?;
            // the new thread must have registered as Ready before the spawner moves on, so the schedule can name it
            loop {
                let rt = G.rt.lock().unwrap_or_else(|e| e.into_inner());
                if rt.threads[id].state != TState::NotStarted { break; }
                drop(rt); std::thread::yield_now();
            }
            Ok(JoinHandle { h: Some(h), id, done })
        }
    }
    pub fn spawn<F, T>(f: F) -> JoinHandle<T> where F: FnOnce() -> T + Send + 'static, T: Send + 'static { Builder::new().spawn(f).unwrap() }
    impl<T> JoinHandle<T> {
        pub fn is_finished(&self) -> bool { let rt = G.rt.lock().unwrap_or_else(|e| e.into_inner()); rt.threads[self.id].state == TState::Finished }
        pub fn join(mut self) -> std::thread::Result<T> {
            let id = self.id;
            gate("JoinHandle::join", |rt| rt.threads[id].state == TState::Finished);
            super::JOINED.fetch_add(1, std::sync::atomic::Ordering::SeqCst);
            match self.h.take().unwrap().join() { Ok(r) => r, Err(e) => Err(e) }
        }
    }
}

// ------------------------------------------------------------------------------------------------ oneshot
pub mod oneshot {
    pub use futures::channel::oneshot::Canceled;
    use std::sync::{Arc, Mutex as StdMutex};
    use std::task::{Context, Poll, Waker};
    use std::pin::Pin;
    use super::gate;
    struct Inner<T> { val: Option<T>, tx_done: bool, rx_done: bool, rx_waker: Option<Waker> }
    pub struct Sender<T> { c: Arc<StdMutex<Inner<T>>>, sent: bool }
    pub struct Receiver<T> { c: Arc<StdMutex<Inner<T>>> }
    pub fn channel<T>() -> (Sender<T>, Receiver<T>) {
        let c = Arc::new(StdMutex::new(Inner { val: None, tx_done: false, rx_done: false, rx_waker: None }));
        (Sender { c: c.clone(), sent: false }, Receiver { c })
    }
    impl<T> Sender<T> {
        pub fn send(mut self, t: T) -> Result<(), T> {
            gate("oneshot::send", |_| true);
            self.sent = true;
            let (res, wk) = { let mut c = self.c.lock().unwrap(); c.tx_done = true;
                if c.rx_done { (Err(t), c.rx_waker.take()) } else { c.val = Some(t); (Ok(()), c.rx_waker.take()) } };
            if let Some(w) = wk { w.wake(); }
            res
        }
    }
    impl<T> Drop for Sender<T> {
        fn drop(&mut self) {
            if self.sent { return; }
            gate("oneshot::close", |_| true);
            let wk = { let mut c = self.c.lock().unwrap(); let was = c.tx_done; c.tx_done = true; if was { None } else { c.rx_waker.take() } };
            if let Some(w) = wk { w.wake(); }
        }
    }
    impl<T> Drop for Receiver<T> { fn drop(&mut self) { gate("oneshot::close", |_| true); self.c.lock().unwrap().rx_done = true; } }
    impl<T> std::future::Future for Receiver<T> {
        type Output = Result<T, Canceled>;
        fn poll(self: Pin<&mut Self>, cx: &mut Context<'_>) -> Poll<Self::Output> {
            gate("oneshot::poll", |_| true);
            let mut c = self.c.lock().unwrap();
            if let Some(v) = c.val.take() { return Poll::Ready(Ok(v)); }
            if c.tx_done { return Poll::Ready(Err(Canceled)); }
            c.rx_waker = Some(cx.waker().clone());
            Poll::Pending
        }
    }
    impl<T> Unpin for Receiver<T> {}
}
